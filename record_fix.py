#!/usr/bin/env python3
"""usage: record_fix.py <property> <mutant-name> <files...> -- <fixed text> -- <design row text> -- <commit subject>
Records the newest /repo commit as a fix: reverse patch under mutants/, targets line, `fixed:` line, DESIGN section 5 row."""
import subprocess, sys, re
args = sys.argv[1:]
prop, mut = args[0], args[1]
rest = args[2:]
i = rest.index('--'); files = rest[:i]; rest = rest[i+1:]
j = rest.index('--'); fixed = ' '.join(rest[:j]); rest = rest[j+1:]
k = rest.index('--'); row = ' '.join(rest[:k]); subj = ' '.join(rest[k+1:])
import os
rev = os.environ.get('FIXREV','HEAD')
h = subprocess.run(['git','-C','/repo','log','--format=%h','-1',rev],capture_output=True,text=True).stdout.strip()
d = subprocess.run(['git','-C','/repo','diff',rev,rev+'~1','--']+files,capture_output=True,text=True).stdout
open('/verif/mutants/%s.patch'%mut,'w').write(d)
open('/verif/mutants/targets.txt','a').write('%s.patch %s\n'%(mut,prop))
p='/verif/KNOWN_FINDINGS.txt'
s=open(p).read().rstrip('\n').split('\n')
idx=max(n for n,l in enumerate(s) if l.startswith('fixed:'))
s.insert(idx+1,'fixed: property=%s %s %s'%(prop,h,fixed))
open(p,'w').write('\n'.join(s)+'\n')
p='/verif/DESIGN.md'
t=open(p).read()
n=max(int(m) for m in re.findall(r'^\| (\d+) \| C\d\d', t, re.M))+1
old="\nKnown findings (genuine, recorded rather than repaired;"
t=t.replace(old,"| %d | %s | %s | %s |\n"%(n,prop,row,subj)+old,1)
open(p,'w').write(t)
print('recorded fix', n, h)
