#!/usr/bin/env python3
"""Regenerates MANIFEST.json from the table below (kept in one place so it stays valid)."""
import json, os
V = os.path.dirname(os.path.abspath(__file__))
props = [json.loads(l) for l in open(os.path.join(V, "properties.jsonl"))]
# id -> (technique, level text, level note, design ref)
CLAIMS = json.load(open(os.path.join(V, "claims.json")))
hooks = json.load(open(os.path.join(V, "hooks.json")))
checks, na = [], []
for p in props:
    i = p["id"]
    c = CLAIMS.get(i)
    if not c or not os.path.isdir(os.path.join(V, "props", i.lower())):
        na.append(dict(property_id=i, reason=(c or {}).get("na_reason", "check not built yet in this session (planned in DESIGN.md section 2); nothing is claimed for it")))
        continue
    checks.append(dict(
        property_id=i,
        quick_cmd="./check %s --tier quick" % i,
        thorough_cmd="./check %s --tier thorough" % i,
        evidence_file="/verif/evidence/%s.json" % i,
        replay_cmd_template="./check %s --replay {path}" % i,
        engine="rapid-pbt",
        level_claimed=dict(category="exploration", text=c["text"], design_ref="DESIGN.md section 2, " + i),
        level_note=c["note"],
        technique=c["technique"]))
m = dict(version=1,
         setup_cmd="./setup.sh",
         hooks=hooks,
         engines=[dict(name="rapid-pbt", path="/verif/check", serves_properties=[c["property_id"] for c in checks],
                       kind_free_text="python driver that rebuilds one Go test binary per property from /repo's working tree (tag verif) and runs "
                       "pgregory.net/rapid v1.3.0 property-based generators (sharded over processes), exhaustive small-grid enumerators, "
                       "saved-corpus replay and (thorough, C07) go native fuzzing against explicit oracles")],
         checks=checks,
         notes="All checks: generated-input search against an explicit oracle; evidence written by the run itself; KNOWN_FINDINGS.txt lists fixed/known defects.",
         not_applicable=na)
json.dump(m, open(os.path.join(V, "MANIFEST.json"), "w"), indent=1)
print("checks:", [c["property_id"] for c in checks], "not claimed:", [n["property_id"] for n in na])
