// C16 — Shapefile write followed by read returns the same geometries and attributes.
package c16

import (
	"fmt"
	"math"
	"os"
	"path/filepath"
	"strconv"
	"strings"
	"testing"

	"github.com/ctessum/geom"
	gshp "github.com/ctessum/geom/encoding/shp"
	goshp "github.com/jonas-p/go-shp"
	"pgregory.net/rapid"
	"verif/vkit"
)

type Rec struct {
	G  vkit.GJ `json:"g"`
	I  int     `json:"i"`
	F  float64 `json:"f"`
	S  string  `json:"s"`
	S2 string  `json:"s2"`
}

type Case struct {
	Shape    string `json:"shape"`     // Point MultiPoint LineString MultiLineString Polygon Bounds
	API      string `json:"api"`       // struct | fields
	Layout   string `json:"layout"`    // A (string last) | B (string first, untagged) | C (two strings, string in the middle and last)
	DecodeAs string `json:"decode_as"` // concrete | iface
	Reuse    bool   `json:"reuse"`     // decode every row into the same record variable instead of a fresh one per row
	Recs     []Rec  `json:"recs"`
	// Mixed (layout A only): the rows of one Decoder are read with both calls - row k with DecodeRowFields when bit k%60 of
	// Mixed is set if the file is otherwise read into structs, with DecodeRow when it is set if the file is otherwise read
	// by field names
	Mixed uint64 `json:"mixed,omitempty"`
}

// ---- record struct families (the struct-based API is reflection driven) ----

type recA[G any] struct {
	Shape G
	Count int     `shp:"count"`
	Val   float64 `shp:"value"`
	Name  string  `shp:"name"`
}

// recD is read from files written with the field-based API whose columns carry the Go field names: every tag names no
// column, so the match has to come from the field name ("matched to struct fields by tag or name")
type recD[G any] struct {
	Shape G
	Count int     `shp:"n"`
	Val   float64 `shp:"value"`
	Name  string  `shp:"label"`
}

// recE: every field's Go name is another field's column name (tags form a cycle over the names): a decoder that looks a
// field up by its Go name before its tag reads another column
type recE[G any] struct {
	Shape G
	Count int     `shp:"total"`
	Total float64 `shp:"name"`
	Name  string  `shp:"count"`
}

// recF: column names of eleven bytes (the most a dBase field name holds) that agree in their first ten bytes, next to
// a ten-byte name that is the common prefix of another pair
type recF[G any] struct {
	Shape       G
	Population1 int
	Population2 float64
	Measurement string
	Measuremen  string
}
type recB[G any] struct {
	S string
	G G
	F float64
	I int
}
type recC[G any] struct {
	ID    int    `shp:"Ident"`
	First string `shp:"FirstName"`
	Geom  G
	Ratio float64
	LAST  string
}

// leadingBlank: some string attribute of the case starts with a blank (known finding leading_blank_lost: the DBF reader
// of the dependency go-shp strips blanks on both sides of a character field, not only the padding on the right)
func leadingBlank(c Case) bool {
	for _, r := range c.Recs {
		if strings.HasPrefix(r.S, " ") || strings.HasPrefix(r.S2, " ") {
			return true
		}
	}
	return false
}

func genString(t *rapid.T) string {
	pieces := []string{"a", "B", "z", "0", "9", " ", " ", "-", "_", ".", ",", "'", "\"", "é", "漢", "/", "\\", "%", "x", "Q"}
	n := rapid.IntRange(0, 30).Draw(t, "slen")
	var sb strings.Builder
	for i := 0; i < n; i++ {
		p := rapid.SampledFrom(pieces).Draw(t, "ch")
		if sb.Len()+len(p) > 50 {
			break
		}
		sb.WriteString(p)
	}
	// DBF pads a value with blanks to the width of its field, so it cannot tell a trailing blank from padding; a leading
	// blank it can hold (see the known finding leading_blank_lost)
	out := strings.TrimRight(sb.String(), " ")
	if rapid.IntRange(0, 24).Draw(t, "leadingblank") != 0 {
		out = strings.TrimLeft(out, " ") // cases of the known finding are set aside whole: keep them few
	}
	return out
}

func genRec(t *rapid.T, shape string) Rec {
	var r Rec
	o := vkit.GeomOpts{Types: []string{shape}, MinMembers: 1, MaxMembers: rapid.SampledFrom([]int{1, 2, 5}).Draw(t, "maxmem"), MinPts: 1, MaxPts: 6, Coord: vkit.CoordFinite()}
	if rapid.IntRange(0, 29).Draw(t, "bigshape") == 11 && shape != "Point" && shape != "Bounds" {
		o.MinPts, o.MaxPts, o.MaxMembers = 300, 1500, 2 // parts of hundreds of points (record lengths beyond any small buffer)
		o.Coord = rapid.Float64Range(-1e6, 1e6)
	}
	r.G = vkit.GenGJ(t, o)
	if shape == "Bounds" && rapid.IntRange(0, 19).Draw(t, "emptybox") == 7 {
		// a box without any point (geom.NewBounds()): whatever it is written as, the file has to stay readable and the
		// four (infinite) corners come back as they are
		r.G = vkit.GJ{T: "Bounds", Pts: []vkit.P2{vkit.MkP(math.Inf(1), math.Inf(1)), vkit.MkP(math.Inf(-1), math.Inf(-1))}}
	}
	if shape == "Polygon" {
		// closed and unclosed spellings
		for i, ring := range r.G.Rings {
			if len(ring) >= 2 && rapid.Bool().Draw(t, "close") {
				r.G.Rings[i] = append(ring, ring[0])
			}
		}
	}
	r.I = rapid.OneOf(rapid.IntRange(-99999999, 999999999), rapid.IntRange(-9, 9), rapid.SampledFrom([]int{0, 1, -1, 999999999, -99999999, 1000000000, 9999999999, 12345678901, -1234567890})).Draw(t, "i")
	r.F = rapid.OneOf(rapid.Float64Range(-9.99e17, 9.99e17), rapid.Float64Range(-1, 1), rapid.Float64Range(-1e6, 1e6),
		rapid.SampledFrom([]float64{0, 1, -1, 0.5, 1e-10, 1e-11, 123456789.123456789, 9.9e17, -9.9e17, 1.0 / 3})).Draw(t, "f")
	r.S = genString(t)
	r.S2 = genString(t)
	return r
}

func gen(t *rapid.T) Case {
	var c Case
	c.Shape = rapid.SampledFrom([]string{"Point", "MultiPoint", "LineString", "MultiLineString", "Polygon", "Bounds"}).Draw(t, "shape")
	c.API = rapid.SampledFrom([]string{"struct", "struct", "fields"}).Draw(t, "api")
	c.Layout = rapid.SampledFrom([]string{"A", "B", "C"}).Draw(t, "layout")
	if c.API == "struct" && rapid.IntRange(0, 3).Draw(t, "crossapi") == 2 {
		c.Layout = "D" // written with the field-based API, read into a struct whose tags match no column but whose field names do
	}
	if c.API == "struct" && c.Layout != "D" && rapid.IntRange(0, 4).Draw(t, "crossnames") == 3 {
		c.Layout = "E" // tags and Go field names form a cycle: the tag has to win over the name
	}
	if c.API == "struct" && c.Layout != "D" && c.Layout != "E" && rapid.IntRange(0, 5).Draw(t, "longnames") == 2 {
		c.Layout = "F" // eleven-byte column names that agree in their first ten bytes
	}
	c.DecodeAs = rapid.SampledFrom([]string{"concrete", "iface", "same"}).Draw(t, "decodeas") // same: the field type the record was written with (differs from concrete for LineString only)
	c.Reuse = rapid.Bool().Draw(t, "reuse")
	if c.Layout == "A" && rapid.IntRange(0, 2).Draw(t, "mixedread") == 1 {
		// one Decoder, both ways of reading a row: alternating, or in a drawn pattern
		c.Mixed = rapid.OneOf(rapid.Just(uint64(0xAAAAAAAAAAAAAAAA)), rapid.Just(uint64(0x5555555555555555)), rapid.Uint64()).Draw(t, "mixed")
	}
	n := rapid.IntRange(0, 8).Draw(t, "nrec")
	if rapid.IntRange(0, 9).Draw(t, "many") == 0 {
		n = rapid.IntRange(9, 40).Draw(t, "nrec2")
	}
	for i := 0; i < n; i++ {
		c.Recs = append(c.Recs, genRec(t, c.Shape))
	}
	return c
}

// expected geometry after the round trip
func expected(g vkit.GJ) vkit.GJ {
	switch g.T {
	case "LineString":
		return vkit.GJ{T: "MultiLineString", Rings: [][]vkit.P2{g.Pts}}
	case "Polygon":
		out := vkit.GJ{T: "Polygon"}
		for _, r := range g.Rings {
			rr := append([]vkit.P2{}, r...)
			if len(r) > 0 && (r[0][0] != r[len(r)-1][0] || r[0][1] != r[len(r)-1][1]) {
				rr = append(rr, r[0])
			}
			out.Rings = append(out.Rings, rr)
		}
		return out
	case "Bounds":
		mn, mx := g.Pts[0], g.Pts[1]
		// five vertices whatever the box looks like (a box without height has its fourth corner on its first one: that
		// does not make the ring of four a closed one)
		return vkit.GJ{T: "Polygon", Rings: [][]vkit.P2{{mn, {mx[0], mn[1]}, mx, {mn[0], mx[1]}, mn}}}
	}
	return g
}

type got struct {
	g          geom.Geom
	i          int
	f          float64
	s, s2      string
	hasS2      bool
	rawI, rawF string
}

func tmpDir() (string, error) {
	base := ""
	if st, err := os.Stat("/dev/shm"); err == nil && st.IsDir() {
		base = "/dev/shm"
	}
	return os.MkdirTemp(base, "verif-c16-")
}

// structRT writes the records with the struct API using layout L over geometry type GE and reads them with geometry field type GD.
func structRT[GE any, GD any](c Case, file string, conv func(vkit.GJ) GE) ([]got, string) {
	var out []got
	switch c.Layout {
	case "A":
		e, err := gshp.NewEncoder(file, recA[GE]{})
		if err != nil {
			return nil, "NewEncoder: " + err.Error()
		}
		for k, r := range c.Recs {
			if err := e.Encode(recA[GE]{Shape: conv(r.G), Count: r.I, Val: r.F, Name: r.S}); err != nil {
				e.Close()
				return nil, fmt.Sprintf("Encode record %d: %v", k, err)
			}
		}
		e.Close()
		d, err := gshp.NewDecoder(file)
		if err != nil {
			return nil, "NewDecoder: " + err.Error()
		}
		defer d.Close()
		var shared recA[GD]
		for k := 0; ; k++ {
			if c.Mixed>>(uint(k)%60)&1 == 1 {
				// this row through the other call of the same Decoder
				g, m, more := d.DecodeRowFields("count", "value", "name")
				if !more {
					break
				}
				n, err1 := strconv.Atoi(strings.TrimSpace(m["count"]))
				f, err2 := strconv.ParseFloat(strings.TrimSpace(m["value"]), 64)
				if err1 != nil || err2 != nil {
					return out, fmt.Sprintf("row %d read with DecodeRowFields between DecodeRow calls: attributes come back as %q", k, m)
				}
				out = append(out, got{g: g, i: n, f: f, s: m["name"], rawI: m["count"]})
				continue
			}
			var fresh recA[GD]
			rec := &fresh
			if c.Reuse {
				rec = &shared
			}
			if !d.DecodeRow(rec) {
				break
			}
			g, _ := any(rec.Shape).(geom.Geom)
			out = append(out, got{g: g, i: rec.Count, f: rec.Val, s: rec.Name})
		}
		if err := d.Error(); err != nil {
			return out, "Decoder.Error: " + err.Error()
		}
	case "D":
		st := map[string]goshp.ShapeType{"Point": goshp.POINT, "MultiPoint": goshp.MULTIPOINT, "LineString": goshp.POLYLINE, "MultiLineString": goshp.POLYLINE,
			"Polygon": goshp.POLYGON, "Bounds": goshp.POLYGON}[c.Shape]
		e, err := gshp.NewEncoderFromFields(file, st, goshp.NumberField("Count", 10), goshp.FloatField("Val", 30, 10), goshp.StringField("Name", 50))
		if err != nil {
			return nil, "NewEncoderFromFields: " + err.Error()
		}
		for k, r := range c.Recs {
			if err := e.EncodeFields(mk(r.G), r.I, r.F, r.S); err != nil {
				e.Close()
				return nil, fmt.Sprintf("EncodeFields record %d: %v", k, err)
			}
		}
		e.Close()
		d, err := gshp.NewDecoder(file)
		if err != nil {
			return nil, "NewDecoder: " + err.Error()
		}
		defer d.Close()
		var shared recD[GD]
		for {
			var fresh recD[GD]
			rec := &fresh
			if c.Reuse {
				rec = &shared
			}
			if !d.DecodeRow(rec) {
				break
			}
			g, _ := any(rec.Shape).(geom.Geom)
			out = append(out, got{g: g, i: rec.Count, f: rec.Val, s: rec.Name})
		}
		if err := d.Error(); err != nil {
			return out, "Decoder.Error: " + err.Error()
		}
	case "E":
		e, err := gshp.NewEncoder(file, recE[GE]{})
		if err != nil {
			return nil, "NewEncoder: " + err.Error()
		}
		for k, r := range c.Recs {
			if err := e.Encode(recE[GE]{Shape: conv(r.G), Count: r.I, Total: r.F, Name: r.S}); err != nil {
				e.Close()
				return nil, fmt.Sprintf("Encode record %d: %v", k, err)
			}
		}
		e.Close()
		d, err := gshp.NewDecoder(file)
		if err != nil {
			return nil, "NewDecoder: " + err.Error()
		}
		defer d.Close()
		var shared recE[GD]
		for {
			var fresh recE[GD]
			rec := &fresh
			if c.Reuse {
				rec = &shared
			}
			if !d.DecodeRow(rec) {
				break
			}
			g, _ := any(rec.Shape).(geom.Geom)
			out = append(out, got{g: g, i: rec.Count, f: rec.Total, s: rec.Name})
		}
		if err := d.Error(); err != nil {
			return out, "Decoder.Error: " + err.Error()
		}
	case "F":
		e, err := gshp.NewEncoder(file, recF[GE]{})
		if err != nil {
			return nil, "NewEncoder: " + err.Error()
		}
		for k, r := range c.Recs {
			if err := e.Encode(recF[GE]{Shape: conv(r.G), Population1: r.I, Population2: r.F, Measurement: r.S, Measuremen: r.S2}); err != nil {
				e.Close()
				return nil, fmt.Sprintf("Encode record %d: %v", k, err)
			}
		}
		e.Close()
		d, err := gshp.NewDecoder(file)
		if err != nil {
			return nil, "NewDecoder: " + err.Error()
		}
		defer d.Close()
		var shared recF[GD]
		for {
			var fresh recF[GD]
			rec := &fresh
			if c.Reuse {
				rec = &shared
			}
			if !d.DecodeRow(rec) {
				break
			}
			g, _ := any(rec.Shape).(geom.Geom)
			out = append(out, got{g: g, i: rec.Population1, f: rec.Population2, s: rec.Measurement, s2: rec.Measuremen, hasS2: true})
		}
		if err := d.Error(); err != nil {
			return out, "Decoder.Error: " + err.Error()
		}
	case "B":
		e, err := gshp.NewEncoder(file, recB[GE]{})
		if err != nil {
			return nil, "NewEncoder: " + err.Error()
		}
		for k, r := range c.Recs {
			rec := recB[GE]{S: r.S, G: conv(r.G), F: r.F, I: r.I}
			if err := e.Encode(&rec); err != nil { // pointer form
				e.Close()
				return nil, fmt.Sprintf("Encode record %d: %v", k, err)
			}
		}
		e.Close()
		d, err := gshp.NewDecoder(file + ".shp")
		if err != nil {
			return nil, "NewDecoder: " + err.Error()
		}
		defer d.Close()
		var shared recB[GD]
		for {
			var fresh recB[GD]
			rec := &fresh
			if c.Reuse {
				rec = &shared
			}
			if !d.DecodeRow(rec) {
				break
			}
			g, _ := any(rec.G).(geom.Geom)
			out = append(out, got{g: g, i: rec.I, f: rec.F, s: rec.S})
		}
		if err := d.Error(); err != nil {
			return out, "Decoder.Error: " + err.Error()
		}
	case "C":
		e, err := gshp.NewEncoder(file, recC[GE]{})
		if err != nil {
			return nil, "NewEncoder: " + err.Error()
		}
		for k, r := range c.Recs {
			if err := e.Encode(recC[GE]{ID: r.I, First: r.S, Geom: conv(r.G), Ratio: r.F, LAST: r.S2}); err != nil {
				e.Close()
				return nil, fmt.Sprintf("Encode record %d: %v", k, err)
			}
		}
		e.Close()
		d, err := gshp.NewDecoder(file)
		if err != nil {
			return nil, "NewDecoder: " + err.Error()
		}
		defer d.Close()
		var shared recC[GD]
		for {
			var fresh recC[GD]
			rec := &fresh
			if c.Reuse {
				rec = &shared
			}
			if !d.DecodeRow(rec) {
				break
			}
			g, _ := any(rec.Geom).(geom.Geom)
			out = append(out, got{g: g, i: rec.ID, f: rec.Ratio, s: rec.First, s2: rec.LAST, hasS2: true})
		}
		if err := d.Error(); err != nil {
			return out, "Decoder.Error: " + err.Error()
		}
	}
	return out, ""
}

func fieldsRT(c Case, file string) ([]got, string) {
	st := map[string]goshp.ShapeType{"Point": goshp.POINT, "MultiPoint": goshp.MULTIPOINT, "LineString": goshp.POLYLINE, "MultiLineString": goshp.POLYLINE,
		"Polygon": goshp.POLYGON, "Bounds": goshp.POLYGON}[c.Shape]
	var fields []goshp.Field
	var order []string
	switch c.Layout {
	case "A":
		fields = []goshp.Field{goshp.NumberField("count", 10), goshp.FloatField("value", 30, 10), goshp.StringField("name", 50)}
		order = []string{"i", "f", "s"}
	case "B":
		fields = []goshp.Field{goshp.StringField("S", 50), goshp.FloatField("F", 30, 10), goshp.NumberField("I", 10)}
		order = []string{"s", "f", "i"}
	default:
		fields = []goshp.Field{goshp.NumberField("Ident", 10), goshp.StringField("FirstName", 50), goshp.FloatField("Ratio", 30, 10), goshp.StringField("LAST", 50)}
		order = []string{"i", "s", "f", "s2"}
	}
	e, err := gshp.NewEncoderFromFields(file, st, fields...)
	if err != nil {
		return nil, "NewEncoderFromFields: " + err.Error()
	}
	for k, r := range c.Recs {
		var vals []interface{}
		for _, o := range order {
			switch o {
			case "i":
				vals = append(vals, r.I)
			case "f":
				vals = append(vals, r.F)
			case "s":
				vals = append(vals, r.S)
			case "s2":
				vals = append(vals, r.S2)
			}
		}
		if err := e.EncodeFields(mk(r.G), vals...); err != nil {
			e.Close()
			return nil, fmt.Sprintf("EncodeFields record %d: %v", k, err)
		}
	}
	e.Close()
	d, err := gshp.NewDecoder(file)
	if err != nil {
		return nil, "NewDecoder: " + err.Error()
	}
	defer d.Close()
	var names []string
	for _, f := range fields {
		n := strings.TrimRight(string(f.Name[:]), "\x00")
		if c.DecodeAs == "iface" {
			n = strings.ToUpper(n) // names match case-insensitively
		}
		names = append(names, n)
	}
	var out []got
	for k := 0; ; k++ {
		if c.Layout == "A" && c.Mixed>>(uint(k)%60)&1 == 1 {
			// this row through the other call of the same Decoder
			var rec recA[geom.Geom]
			if !d.DecodeRow(&rec) {
				break
			}
			out = append(out, got{g: rec.Shape, i: rec.Count, f: rec.Val, s: rec.Name, rawI: strconv.Itoa(rec.Count)})
			continue
		}
		g, m, more := d.DecodeRowFields(names...)
		if !more {
			break
		}
		var o got
		o.g = g
		for k, kind := range order {
			val := m[names[k]]
			switch kind {
			case "i":
				o.rawI = val
				n, err := strconv.Atoi(strings.TrimSpace(val))
				if err != nil {
					return out, fmt.Sprintf("integer attribute comes back as %q", val)
				}
				o.i = n
			case "f":
				f, err := strconv.ParseFloat(strings.TrimSpace(val), 64)
				if err != nil {
					return out, fmt.Sprintf("float attribute comes back as %q", val)
				}
				o.f = f
			case "s":
				o.s = val
			case "s2":
				o.s2, o.hasS2 = val, true
			}
		}
		out = append(out, o)
	}
	if err := d.Error(); err != nil {
		return out, "Decoder.Error: " + err.Error()
	}
	return out, ""
}

// mk builds the geometry handed to the encoder with all its point lists cut out of one flat array (consecutive
// sub-slices with spare capacity, see vkit.SharedGeom) and remembers the check that the array came back unchanged.
var sharedChecks []func() string

func mk(g vkit.GJ) geom.Geom {
	gg, same := vkit.SharedGeom(g)
	sharedChecks = append(sharedChecks, same)
	return gg
}

func cast[T any](g vkit.GJ) T { return any(mk(g)).(T) }

func run(c Case) (v vkit.Verdict) {
	sharedChecks = nil
	v.Class("shape_" + c.Shape)
	v.Class("api_" + c.API + "_" + c.Layout)
	if c.Mixed != 0 {
		v.Class("rows_read_with_both_DecodeRow_and_DecodeRowFields")
	}
	// records whose integer does not fit the documented 10-character field are outside the domain: the encoder must refuse them
	fits := true
	for _, r := range c.Recs {
		if len(strconv.Itoa(r.I)) > 10 {
			fits = false
		}
	}
	dir, err := tmpDir()
	if err != nil {
		panic(err)
	}
	defer os.RemoveAll(dir)
	file := filepath.Join(dir, "t")
	var res []got
	var msg string
	if c.API == "fields" {
		res, msg = fieldsRT(c, file)
	} else {
		iface := c.DecodeAs == "iface"
		switch c.Shape {
		case "Point":
			if iface {
				res, msg = structRT[geom.Point, geom.Geom](c, file, cast[geom.Point])
			} else {
				res, msg = structRT[geom.Point, geom.Point](c, file, cast[geom.Point])
			}
		case "MultiPoint":
			if iface {
				res, msg = structRT[geom.MultiPoint, geom.Geom](c, file, cast[geom.MultiPoint])
			} else {
				res, msg = structRT[geom.MultiPoint, geom.MultiPoint](c, file, cast[geom.MultiPoint])
			}
		case "LineString":
			if iface {
				res, msg = structRT[geom.LineString, geom.Geom](c, file, cast[geom.LineString])
			} else if c.DecodeAs == "same" {
				// read back into the very struct type that was written: a geom.LineString field
				if p := vkit.Catch(func() { res, msg = structRT[geom.LineString, geom.LineString](c, file, cast[geom.LineString]) }); p != "" {
					return v.Fail("reading the records back into the struct type they were written from (geom.LineString field) panicked: %s", p)
				}
				for k := range res {
					if ls, ok := res[k].g.(geom.LineString); ok {
						res[k].g = geom.MultiLineString{ls} // compared part by part like the other decodings
					}
				}
				v.Class("linestring_read_back_as_linestring")
			} else {
				res, msg = structRT[geom.LineString, geom.MultiLineString](c, file, cast[geom.LineString])
			}
		case "MultiLineString":
			if iface {
				res, msg = structRT[geom.MultiLineString, geom.Geom](c, file, cast[geom.MultiLineString])
			} else {
				res, msg = structRT[geom.MultiLineString, geom.MultiLineString](c, file, cast[geom.MultiLineString])
			}
		case "Polygon":
			if iface {
				res, msg = structRT[geom.Polygon, geom.Geom](c, file, cast[geom.Polygon])
			} else {
				res, msg = structRT[geom.Polygon, geom.Polygon](c, file, cast[geom.Polygon])
			}
		case "Bounds":
			if iface {
				res, msg = structRT[*geom.Bounds, geom.Geom](c, file, cast[*geom.Bounds])
			} else {
				res, msg = structRT[*geom.Bounds, geom.Polygon](c, file, cast[*geom.Bounds])
			}
		}
	}
	for k, same := range sharedChecks {
		if m := same(); m != "" {
			return v.Fail("encoding changed the geometry it was given (record %d; point lists are sub-slices of one array): %s", k, m)
		}
	}
	if !fits {
		v.Class("int_too_wide")
		if c.API == "struct" && c.Layout != "D" && !strings.Contains(msg, "exceeds field length") { // layout D writes with the field-based API, which is not claimed to refuse
			return v.Fail("an integer wider than the 10-character field was not refused by Encode: %q", msg)
		}
		return v
	}
	if msg != "" {
		return v.Fail("%s", msg)
	}
	if len(res) != len(c.Recs) {
		return v.Fail("wrote %d records, read %d", len(c.Recs), len(res))
	}
	lens := map[int]bool{}
	multipart := false
	for k, r := range c.Recs {
		want := expected(r.G)
		gj, ok := vkit.FromGeom(res[k].g)
		if !ok || !gj.Equal(want, true) {
			return v.Fail("record %d: geometry comes back as %+v, want %+v", k, res[k].g, want)
		}
		if res[k].i != r.I {
			return v.Fail("record %d: integer attribute %d comes back as %d", k, r.I, res[k].i)
		}
		if vkit.Off(res[k].f-r.F, 5.1e-11+1e-15*math.Abs(r.F)) {
			return v.Fail("record %d: float attribute %.17g comes back as %.17g", k, r.F, res[k].f)
		}
		if res[k].s != r.S {
			return v.Fail("record %d: string attribute %q comes back as %q", k, r.S, res[k].s)
		}
		if res[k].hasS2 && res[k].s2 != r.S2 {
			return v.Fail("record %d: second string attribute %q comes back as %q", k, r.S2, res[k].s2)
		}
		lens[len(r.S)*100+len(r.S2)] = true
		if len(want.Rings) >= 2 || len(want.Pts) >= 2 {
			multipart = true
		}
	}
	v.NonTrivial = (len(c.Recs) >= 2 && len(lens) >= 2) || multipart
	if len(c.Recs) == 0 {
		v.Class("zero_records")
	}
	return v
}

func TestProp(t *testing.T) {
	vkit.Main(t, vkit.Spec[Case]{
		ID: "C16",
		Rule: "rapid: files of 0-8 (10%: 9-40) records of one shape type (Point, MultiPoint, LineString, MultiLineString with 1-5 parts, Polygon with 1-5 rings closed or " +
			"unclosed, *Bounds), finite coordinates from bit patterns; attributes: ints within the 10-character field (wider ones must be refused by Encode), float64 " +
			"|v|<1e18, strings of 0-50 bytes (ASCII, inner blanks, quotes, UTF-8) without NUL and without leading/trailing blanks (not representable in DBF). Both APIs: " +
			"struct-based with three record layouts (string last with tags, string first untagged with pointer records, two strings with mixed-case tags and names; a fourth layout is written with the field-based API under the Go field names and read into a struct whose tags name no column, so that the match must come from the field name; a fifth layout has tags that are the Go names of other fields, so that the tag has to win over the name; geometry " +
			"a third of the layout-A files is read with BOTH calls of one Decoder (DecodeRow and DecodeRowFields row by row in a drawn pattern); field decoded either as the concrete type or as geom.Geom; rows decoded into a fresh record or into one reused record variable) and field-based (NewEncoderFromFields/EncodeFields/DecodeRowFields, names matched in either case). " +
			"The geometries handed to the encoder have their point lists cut out of one flat array (consecutive sub-slices with spare capacity), which must come back unchanged. Oracle: same number and order of records, coordinates bit-identical with line strings as parts, rings in stored order with unclosed rings closed, boxes as 5-vertex " +
			"rectangles; ints equal, strings equal, floats within 5.1e-11; Decoder.Error nil. Non-trivial = >=2 records with string attributes of different lengths, or a multi-part geometry. Distinct by case hash." +
			" Round 9: boxes are expected back as five vertices spelled out (a box without height included).",
		Assumptions: []string{"strings with trailing blanks are excluded: DBF pads a value with blanks to the width of its field and cannot tell the two apart (leading blanks are generated: known finding leading_blank_lost)", "a LineString is read back into a MultiLineString or geom.Geom field, never into a LineString field"},
		Known:       map[string]func(Case) bool{"leading_blank_lost": leadingBlank},
		Gen:         gen,
		Run:         run,
	})
}
