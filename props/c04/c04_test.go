// C04 — Bounds are tight envelopes and vertex enumeration is complete and ordered.
package c04

import (
	"fmt"
	"math"
	"testing"

	"github.com/ctessum/geom"
	"pgregory.net/rapid"
	"verif/vkit"
)

type Case struct {
	Kind  string    `json:"kind"` // geom | boxes
	G     *vkit.GJ  `json:"g,omitempty"`
	Boxes []vkit.GJ `json:"boxes,omitempty"` // T=Bounds; the canonical empty box is Min=+Inf, Max=-Inf
}

var inf = math.Inf(1)

func coord() *rapid.Generator[float64] {
	return rapid.OneOf(
		rapid.SampledFrom([]float64{0, math.Copysign(0, -1), 1, -1, inf, -inf, math.MaxFloat64, -math.MaxFloat64, math.SmallestNonzeroFloat64, 2, -2, 0.5}),
		rapid.Map(rapid.IntRange(-3, 3), func(i int) float64 { return float64(i) }),
		rapid.Float64Range(-1e9, 1e9),
	)
}

func genBox(t *rapid.T, c *rapid.Generator[float64]) vkit.GJ {
	if rapid.IntRange(0, 5).Draw(t, "emptybox") == 0 {
		return vkit.GJ{T: "Bounds", Pts: []vkit.P2{vkit.MkP(inf, inf), vkit.MkP(-inf, -inf)}}
	}
	return vkit.GenGJ(t, vkit.GeomOpts{Types: []string{"Bounds"}, Coord: c})
}

func gen(t *rapid.T) Case {
	var c Case
	if rapid.IntRange(0, 3).Draw(t, "kind") == 0 {
		c.Kind = "boxes"
		var cg *rapid.Generator[float64]
		if rapid.Bool().Draw(t, "smallgrid") {
			cg = rapid.SampledFrom([]float64{0, 1, 2, 3, -inf, inf})
		} else {
			cg = coord()
		}
		c.Boxes = []vkit.GJ{genBox(t, cg), genBox(t, cg), genBox(t, cg)}
		return c
	}
	c.Kind = "geom"
	o := vkit.GeomOpts{Types: append([]string{"Bounds"}, vkit.AllSeven...), MaxDepth: rapid.IntRange(0, 3).Draw(t, "depth"),
		MinMembers: 0, MaxMembers: rapid.SampledFrom([]int{2, 4, 6}).Draw(t, "maxmem"), MaxPts: rapid.SampledFrom([]int{0, 1, 2, 3}).Draw(t, "maxpts"),
		Coord: coord()}
	if rapid.IntRange(0, 49).Draw(t, "longmembers") == 31 {
		o.MaxPts, o.MaxMembers, o.MaxDepth = rapid.IntRange(300, 1200).Draw(t, "maxptslong"), 3, 1 // members of hundreds of vertices
	}
	g := vkit.GenGJ(t, o)
	// round 13: a box among the geometries may be the box that holds no point (geom.NewBounds(): Min = +Inf, Max = -Inf),
	// alone or as a member of a collection: a geometry without vertices like an empty line
	var emptyBoxes func(g *vkit.GJ)
	emptyBoxes = func(g *vkit.GJ) {
		if g.T == "Bounds" && rapid.IntRange(0, 3).Draw(t, "emptyboxgeom") == 0 {
			g.Pts = []vkit.P2{vkit.MkP(inf, inf), vkit.MkP(-inf, -inf)}
		}
		for i := range g.Geoms {
			emptyBoxes(&g.Geoms[i])
		}
	}
	emptyBoxes(&g)
	if rapid.IntRange(0, 29).Draw(t, "deep") == 17 {
		// collections nested 15 to 66 deep (next to 16, 32 and 64, the sizes at which a stack that is grown by doubling
		// is moved), the nested collection followed by another member on most levels, vertices at the bottom and on the way
		depth := rapid.SampledFrom([]int{16, 16, 32, 64}).Draw(t, "deepn") + rapid.IntRange(-1, 2).Draw(t, "deepoff")
		inner := g
		k := 0
		pt := func() vkit.GJ {
			k++
			return vkit.GJ{T: "Point", Pts: []vkit.P2{vkit.MkP(float64(100+k), float64(-k))}}
		}
		for lvl := 0; lvl < depth; lvl++ {
			gc := vkit.GJ{T: "GeometryCollection"}
			if rapid.IntRange(0, 3).Draw(t, "deeplead") == 0 {
				gc.Geoms = append(gc.Geoms, pt())
			}
			gc.Geoms = append(gc.Geoms, inner)
			switch rapid.IntRange(0, 5).Draw(t, "deeptrail") {
			case 0: // the nested collection is the last member
			case 1:
				gc.Geoms = append(gc.Geoms, vkit.GJ{T: "LineString"})
			default:
				gc.Geoms = append(gc.Geoms, pt())
			}
			inner = gc
		}
		g = inner
	}
	c.G = &g
	return c
}

func bx(g vkit.GJ) *geom.Bounds { return g.Geom().(*geom.Bounds) }

func isEmpty(b vkit.GJ) bool { return b.Pts[1][0] < b.Pts[0][0] || b.Pts[1][1] < b.Pts[0][1] }

func sameBox(b *geom.Bounds, mn, mx vkit.P2) bool {
	return b != nil && b.Min.X == float64(mn[0]) && b.Min.Y == float64(mn[1]) && b.Max.X == float64(mx[0]) && b.Max.Y == float64(mx[1])
}

// join is the reference lattice join on (min of mins, max of maxes).
func join(a, b vkit.GJ) vkit.GJ {
	return vkit.GJ{T: "Bounds", Pts: []vkit.P2{
		vkit.MkP(math.Min(float64(a.Pts[0][0]), float64(b.Pts[0][0])), math.Min(float64(a.Pts[0][1]), float64(b.Pts[0][1]))),
		vkit.MkP(math.Max(float64(a.Pts[1][0]), float64(b.Pts[1][0])), math.Max(float64(a.Pts[1][1]), float64(b.Pts[1][1])))}}
}

func extend(a, b vkit.GJ) *geom.Bounds {
	x := bx(a)
	x.Extend(bx(b))
	return x
}

func runBoxes(c Case) (v vkit.Verdict) {
	A, B, C := c.Boxes[0], c.Boxes[1], c.Boxes[2]
	v.Class("boxes")
	anyEmpty := isEmpty(A) || isEmpty(B) || isEmpty(C)
	// Empty()
	for _, X := range c.Boxes {
		if bx(X).Empty() != isEmpty(X) {
			return v.Fail("Empty() of %v = %v", X.Pts, bx(X).Empty())
		}
		cp := bx(X).Copy()
		orig := bx(X)
		if !sameBox(cp, X.Pts[0], X.Pts[1]) {
			return v.Fail("Copy of %v = %+v", X.Pts, cp)
		}
		cp.Extend(&geom.Bounds{Min: geom.Point{X: -5e300, Y: -5e300}, Max: geom.Point{X: 5e300, Y: 5e300}})
		if !sameBox(orig, X.Pts[0], X.Pts[1]) {
			return v.Fail("Copy is not independent")
		}
	}
	// Extend = lattice join; identity on the empty box; commutative, associative, idempotent
	ab := join(A, B)
	if got := extend(A, B); !sameBox(got, ab.Pts[0], ab.Pts[1]) {
		return v.Fail("Extend(%v,%v) = %+v, lattice join is %v", A.Pts, B.Pts, *got, ab.Pts)
	}
	if g1, g2 := extend(A, B), extend(B, A); *g1 != *g2 && !(sameBox(g1, vkit.MkP(g2.Min.X, g2.Min.Y), vkit.MkP(g2.Max.X, g2.Max.Y))) {
		return v.Fail("Extend not commutative: %+v vs %+v", *g1, *g2)
	}
	l := extend(A, B)
	l.Extend(bx(C))
	bc := extend(B, C)
	r := bx(A)
	r.Extend(bc)
	if !sameBox(l, vkit.MkP(r.Min.X, r.Min.Y), vkit.MkP(r.Max.X, r.Max.Y)) {
		return v.Fail("Extend not associative on %v %v %v: %+v vs %+v", A.Pts, B.Pts, C.Pts, *l, *r)
	}
	if got := extend(A, A); !sameBox(got, A.Pts[0], A.Pts[1]) {
		return v.Fail("Extend not idempotent: %v -> %+v", A.Pts, *got)
	}
	x := bx(A)
	x.Extend(nil)
	if !sameBox(x, A.Pts[0], A.Pts[1]) {
		return v.Fail("Extend(nil) changed the box")
	}
	// Overlaps iff the closed boxes share a point
	share := !isEmpty(A) && !isEmpty(B) && A.Pts[0][0] <= B.Pts[1][0] && B.Pts[0][0] <= A.Pts[1][0] && A.Pts[0][1] <= B.Pts[1][1] && B.Pts[0][1] <= A.Pts[1][1]
	if got := bx(A).Overlaps(bx(B)); got != share {
		return v.Fail("Overlaps(%v,%v) = %v, closed boxes share a point: %v", A.Pts, B.Pts, got, share)
	}
	if got := bx(B).Overlaps(bx(A)); got != share {
		return v.Fail("Overlaps(%v,%v) = %v, closed boxes share a point: %v", B.Pts, A.Pts, got, share)
	}
	// box-box intersection: the common rectangle, nil when no common area
	ix0, iy0 := math.Max(float64(A.Pts[0][0]), float64(B.Pts[0][0])), math.Max(float64(A.Pts[0][1]), float64(B.Pts[0][1]))
	ix1, iy1 := math.Min(float64(A.Pts[1][0]), float64(B.Pts[1][0])), math.Min(float64(A.Pts[1][1]), float64(B.Pts[1][1]))
	hasArea := !isEmpty(A) && !isEmpty(B) && ix0 < ix1 && iy0 < iy1
	touch := share && !hasArea
	oneAxis := !isEmpty(A) && !isEmpty(B) && ((ix0 < ix1) != (iy0 < iy1))
	v.NonTrivial = touch || oneAxis || anyEmpty
	if touch {
		v.Class("boxes_touching")
	}
	if oneAxis {
		v.Class("boxes_disjoint_on_one_axis")
	}
	if anyEmpty {
		v.Class("boxes_with_empty")
	}
	res := bx(A).Intersection(bx(B))
	if hasArea {
		rb, ok := res.(*geom.Bounds)
		if !ok || !sameBox(rb, vkit.MkP(ix0, iy0), vkit.MkP(ix1, iy1)) {
			return v.Fail("Intersection(%v,%v) = %#v, want box [%v %v]-[%v %v]", A.Pts, B.Pts, res, ix0, iy0, ix1, iy1)
		}
	} else if res != nil {
		if rb, ok := res.(*geom.Bounds); !ok || rb != nil {
			return v.Fail("Intersection(%v,%v) = %+v, want nil (no common area)", A.Pts, B.Pts, res)
		}
	}
	return v
}

func runGeom(c Case) (v vkit.Verdict) {
	g, sameG := vkit.SharedGeom(*c.G)
	defer func() {
		if m := sameG(); m != "" && !v.Bad {
			v = v.Fail("the call changed the geometry it was given (point lists are sub-slices of one array with spare capacity): %s", m)
		}
	}()

	V := c.G.Flatten()
	v.Class(c.G.T)
	he := c.G.HasEmptyMember()
	v.NonTrivial = he || c.G.Depth() >= 2
	if he {
		v.Class("has_empty_member")
	}
	if len(V) == 0 {
		v.Class("no_vertices")
	}
	if n := g.Len(); n != len(V) {
		return v.Fail("Len() = %d, reference flattening has %d vertices", n, len(V))
	}
	var it func() geom.Point
	if p := vkit.Catch(func() { it = g.Points() }); p != "" {
		return v.Fail("Points() panicked: %s", p)
	}
	for i, want := range V {
		var got geom.Point
		if p := vkit.Catch(func() { got = it() }); p != "" {
			return v.Fail("iterator call %d of %d panicked: %s", i+1, len(V), p)
		}
		if math.Float64bits(got.X) != math.Float64bits(float64(want[0])) || math.Float64bits(got.Y) != math.Float64bits(float64(want[1])) {
			return v.Fail("vertex %d = %v, want %v", i, got, want)
		}
	}
	var b *geom.Bounds
	if p := vkit.Catch(func() { b = g.Bounds() }); p != "" {
		return v.Fail("Bounds() panicked: %s", p)
	}
	if b == nil {
		return v.Fail("Bounds() = nil")
	}
	// Bounds() is a query: afterwards the geometry still has exactly the same vertices (also its nested members),
	// and asking again gives the same box
	if after, ok := vkit.FromGeom(g); !ok || !after.Equal(*c.G, true) {
		return v.Fail("calling Bounds() changed the geometry: now %+v", after)
	}
	if b2 := g.Bounds(); b2 == nil || !(b2.Min == b.Min && b2.Max == b.Max) {
		return v.Fail("second Bounds() call gives %+v, first gave %+v", b2, *b)
	}
	if _, isBox := g.(*geom.Bounds); !isBox {
		// the box that comes back is the caller's: growing it in place (as an accumulator: acc := g.Bounds();
		// acc.Extend(...)) changes neither what g answers next time nor what a geometry without vertices answers.
		// (A *Bounds returns itself; that is the one geometry whose Bounds() IS the geometry.)
		saved := *b
		grown := g.Bounds()
		grown.Extend(&geom.Bounds{Min: geom.Point{X: -12345, Y: -23456}, Max: geom.Point{X: 34567, Y: 45678}})
		if b3 := g.Bounds(); b3 == nil || !(b3.Min == saved.Min && b3.Max == saved.Max) {
			return v.Fail("after the box returned by Bounds() was extended in place, Bounds() gives %+v, before it gave %+v", b3, saved)
		}
		for _, e := range []geom.Geom{geom.LineString{}, geom.MultiPoint{}, geom.Polygon{}, geom.MultiLineString{{}}, geom.GeometryCollection{geom.LineString{}}} {
			if eb := e.Bounds(); eb == nil || !eb.Empty() {
				return v.Fail("after the box returned by %T.Bounds() was extended in place, Bounds() of the empty %T is %+v, not the empty box", g, e, eb)
			}
		}
		*b = saved
	}
	if c.G.T == "GeometryCollection" {
		for i, m := range g.(geom.GeometryCollection) {
			mj := c.G.Geoms[i]
			mv := mj.Flatten()
			mb := m.Bounds()
			if len(mv) > 0 && mb != nil {
				mn, mx := vkit.MkP(inf, inf), vkit.MkP(-inf, -inf)
				for _, p := range mv {
					mn = vkit.MkP(math.Min(float64(mn[0]), float64(p[0])), math.Min(float64(mn[1]), float64(p[1])))
					mx = vkit.MkP(math.Max(float64(mx[0]), float64(p[0])), math.Max(float64(mx[1]), float64(p[1])))
				}
				if !sameBox(mb, mn, mx) {
					return v.Fail("after the collection's Bounds(), member %d reports Bounds() %+v, tight envelope is %v %v", i, *mb, mn, mx)
				}
			}
		}
	}
	if len(V) == 0 {
		if !b.Empty() {
			return v.Fail("Bounds() of a geometry without vertices = %+v, want the empty box", *b)
		}
		return v
	}
	mn, mx := vkit.MkP(inf, inf), vkit.MkP(-inf, -inf)
	for _, p := range V {
		mn = vkit.MkP(math.Min(float64(mn[0]), float64(p[0])), math.Min(float64(mn[1]), float64(p[1])))
		mx = vkit.MkP(math.Max(float64(mx[0]), float64(p[0])), math.Max(float64(mx[1]), float64(p[1])))
	}
	if !sameBox(b, mn, mx) {
		return v.Fail("Bounds() = %+v, tight envelope is %v %v", *b, mn, mx)
	}
	return v
}

func run(c Case) vkit.Verdict {
	if c.Kind == "boxes" {
		return runBoxes(c)
	}
	return runGeom(c)
}

// exhaustive: all pairs of boxes over a 4-value grid per coordinate (proper boxes + the empty box), all triples in thorough
func enumerate(ev *vkit.Ev[Case], tier string) {
	vals := []float64{0, 1, 2, inf}
	if tier == "thorough" {
		vals = []float64{-inf, 0, 1, 2, inf}
	}
	var boxes []vkit.GJ
	boxes = append(boxes, vkit.GJ{T: "Bounds", Pts: []vkit.P2{vkit.MkP(inf, inf), vkit.MkP(-inf, -inf)}})
	for _, x0 := range vals {
		for _, x1 := range vals {
			for _, y0 := range vals {
				for _, y1 := range vals {
					if x0 <= x1 && y0 <= y1 {
						boxes = append(boxes, vkit.GJ{T: "Bounds", Pts: []vkit.P2{vkit.MkP(x0, y0), vkit.MkP(x1, y1)}})
					}
				}
			}
		}
	}
	var n int64
	var keys []uint64
	third := boxes
	if tier != "thorough" {
		third = boxes[:8]
	}
	for i, a := range boxes {
		for j, b := range boxes {
			for k, c3 := range third {
				cs := Case{Kind: "boxes", Boxes: []vkit.GJ{a, b, c3}}
				v := vkit.SafeRun(run, cs)
				n++
				if v.NonTrivial {
					keys = append(keys, vkit.Hash64(fmt.Sprint(i, j, k)))
				}
				if v.Bad {
					ev.Violate(cs, "enumerated boxes: "+v.Msg, "C04-enum.json")
					ev.AddEnumerated(n, keys)
					return
				}
			}
		}
	}
	ev.AddEnumerated(n, keys)
	ev.Count("enumerated_box_triples", n)
}

func TestProp(t *testing.T) {
	vkit.Main(t, vkit.Spec[Case]{
		ID: "C04",
		Rule: "rapid: geometries of all eight types (collections nested to depth<=3, 0-6 members, 0-3 vertices per member (a few per cent: up to 300-1200) so that empty rings/" +
			"lines/polygons/collections and runs of them are frequent; coordinates from {+-0,+-1,+-Inf,+-MaxFloat,small ints,random}; *Bounds members are proper boxes) " +
			"checked against a reference flattening (Len, Points order bit-for-bit, no panic, tight Bounds / empty box; Bounds() leaves the geometry and its members unchanged and is repeatable); triples of boxes (proper boxes incl. " +
			"degenerate and infinite ones, and the canonical empty box) for Extend=lattice join (commutative, associative, idempotent, identity on empty), Overlaps=" +
			"closed boxes share a point, box-box Intersection=common rectangle or nil, Copy, Empty; plus exhaustive enumeration of box pairs x third boxes over a " +
			"4-5 value grid. Non-trivial = geometry with an empty member or nesting depth>=2; box pair that touches, is separated on exactly one axis, or " +
			"involves an empty box. Distinct by case hash." +
			" Round 9: histories in which a returned box is grown in place (Extend, field writes) before Bounds() is asked of the next empty geometry." +
			" Round 11: one geometry in 30 is wrapped in collections nested 15-66 deep." +
			" Round 13: a quarter of the boxes among the geometries are the box without any point (geom.NewBounds()): no vertices, Len 0, the empty box as Bounds.",
		Assumptions: []string{"NaN coordinates are outside the property (min/max of NaN unspecified)", "non-canonical inverted boxes (Max<Min with finite values) are not generated: their lattice meaning is not stated by the property"},
		Gen:         gen,
		Run:         run,
		Extra:       enumerate,
	})
}
