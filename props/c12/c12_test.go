//go:build verif

// C12 — R-tree nearest-neighbour queries return the true nearest objects.
package c12

import (
	"fmt"
	"math"
	"testing"

	"github.com/ctessum/geom"
	"github.com/ctessum/geom/index/rtree"
	"pgregory.net/rapid"
	"verif/props/rtreekit"
	"verif/vkit"
)

type Case = rtreekit.History

func gen(t *rapid.T) Case {
	h := gen0(t)
	if h.Wide == 0 && rapid.IntRange(0, 7).Draw(t, "emptytail") == 0 {
		h.EmptyTail = rapid.IntRange(1, 3).Draw(t, "emptytailn")
	}
	return h
}

// emptyTail: see History.EmptyTail
func emptyTail(m *rtreekit.Model, c Case) string {
	for i := 0; i < c.EmptyTail; i++ {
		b := geom.NewBounds()
		m.Tree.Insert(b)
		m.Live = append(m.Live, b)
		if m.Tree.Size() != len(m.Live) {
			return fmt.Sprintf("Size() = %d, %d objects are stored", m.Tree.Size(), len(m.Live))
		}
		p := geom.Point{X: 1.25 + float64(i), Y: 0.75 - float64(2*i)}
		for _, viaK := range []bool{false, true} {
			if msg := nnWrong(m, p, viaK); msg != "" {
				return msg
			}
		}
		dists, stored := m.SortedDists(p), rtreekit.Count(m.Live)
		for _, k := range []int{len(m.Live), len(m.Live) + 1, len(m.Live) - 1} {
			if k < 1 {
				continue
			}
			if msg := knnWrong(m, k, p, dists, stored, eps); msg != "" {
				return msg
			}
		}
	}
	return ""
}

func gen0(t *rapid.T) Case {
	h := rtreekit.GenHistory(t, "nn")
	if rapid.IntRange(0, 299).Draw(t, "wide") == 77 {
		h = rtreekit.History{Kind: "point", Max: rapid.SampledFrom([]int{66, 80, 100, 128}).Draw(t, "widemax"), Min: rapid.SampledFrom([]int{2, 2, 10, 30}).Draw(t, "widemin"),
			Wide: rapid.IntRange(1500, 3000).Draw(t, "widen"), WideG: rapid.SampledFrom([]float64{1.1, 1.2, 1.3}).Draw(t, "wideg"), WideSeed: rapid.Uint64().Draw(t, "wideseed")}
		return h
	}
	if rapid.IntRange(0, 3).Draw(t, "insertonly") == 0 {
		// insert-only histories keep C12 independent of anything delete does
		var ops []rtreekit.Op
		for _, op := range h.Ops {
			if op.K == "ins" || op.K == "dup" || op.K == "nn" || op.K == "knn" {
				ops = append(ops, op)
			}
		}
		h.Ops = ops
	} else if rapid.IntRange(0, 2).Draw(t, "probe") > 0 {
		h.Probe = true
		if rapid.IntRange(0, 2).Draw(t, "narrow") > 0 {
			// narrow fan-out: the tree gets four and more levels within the history's length
			h.Max = rapid.SampledFrom([]int{4, 4, 5, 6}).Draw(t, "probemax")
			h.Min = 2
			// a build phase first, then a long run of deletes and inserts, so that many deletes act on a tall tree
			n := rapid.IntRange(25, 160).Draw(t, "prebuild")
			churn := rapid.IntRange(20, 200).Draw(t, "churn")
			span := rapid.SampledFrom([]int{12, 40}).Draw(t, "prespan")
			wide := rapid.SampledFrom([]int{0, 2, 2, 9}).Draw(t, "prewide")
			pre := make([]rtreekit.Op, n+churn)
			for i := range pre {
				if i >= n && rapid.IntRange(0, 1).Draw(t, "churndel") == 0 {
					pre[i] = rtreekit.Op{K: "del", Idx: rapid.IntRange(0, 1000).Draw(t, "cidx")}
					continue
				}
				pre[i] = rtreekit.Op{K: "ins", Box: [4]int{rapid.IntRange(0, span).Draw(t, "px"), rapid.IntRange(0, span).Draw(t, "py"), rapid.IntRange(0, wide).Draw(t, "pw"), rapid.IntRange(0, wide).Draw(t, "ph")}}
			}
			h.Ops = append(pre, h.Ops...)
		}
	}
	// every history ends with a query (a third of them would hold none otherwise)
	h.Ops = append(h.Ops, rtreekit.Op{K: rapid.SampledFrom([]string{"nn", "knn"}).Draw(t, "lastq"), Qx: rapid.IntRange(-4, 48).Draw(t, "lastqx"), Qy: rapid.IntRange(-4, 48).Draw(t, "lastqy"), Kn: rapid.IntRange(1, 12).Draw(t, "lastk")})
	return h
}

const eps = 1e-12

// probeDirs: sixteen directions, probeRadii: how far from the removed object the k = 1 probes are placed
var probeRadii = []float64{0.75, 2.5, 6, 11, 19}

// probe queries the nearest neighbour from points around box b.
func probe(m *rtreekit.Model, b *geom.Bounds) string {
	if len(m.Live) == 0 {
		return ""
	}
	cx, cy := (b.Min.X+b.Max.X)/2, (b.Min.Y+b.Max.Y)/2
	for d := 0; d < 16; d++ {
		a := float64(d) * math.Pi / 8
		dx, dy := math.Cos(a), math.Sin(a)
		for _, r := range probeRadii {
			p := geom.Point{X: cx + r*dx, Y: cy + r*dy}
			best := math.Inf(1)
			for _, o := range m.Live {
				if d := rtreekit.BoxDist(p, o.Bounds()); d < best {
					best = d
				}
			}
			var o geom.Geom
			if d%2 == 0 {
				o = m.Tree.NearestNeighbor(p)
			} else {
				o = m.Tree.NearestNeighbors(1, p)[0]
			}
			if o == nil {
				return fmt.Sprintf("nearest-neighbour query from %v after the delete returned nil (size %d)", p, len(m.Live))
			}
			if got := rtreekit.BoxDist(p, o.Bounds()); got != best && vkit.Off(got-best, eps) {
				return fmt.Sprintf("nearest-neighbour query from %v right after the delete returned an object at distance %v, the minimum over the %d stored objects is %v (depth %d)", p, got, len(m.Live), best, m.Tree.Depth())
			}
		}
	}
	return ""
}

// nnWrong runs one k = 1 query and compares it with the minimum over all stored objects.
func nnWrong(m *rtreekit.Model, p geom.Point, viaK bool) string {
	best := math.Inf(1)
	for _, o := range m.Live {
		if d := rtreekit.BoxDist(p, o.Bounds()); d < best {
			best = d
		}
	}
	var o geom.Geom
	if viaK {
		o = m.Tree.NearestNeighbors(1, p)[0]
	} else {
		o = m.Tree.NearestNeighbor(p)
	}
	if o == nil {
		return fmt.Sprintf("nearest-neighbour query from %v returned nil (size %d)", p, len(m.Live))
	}
	if got := rtreekit.BoxDist(p, o.Bounds()); got != best && vkit.Off(got-best, eps) {
		return fmt.Sprintf("nearest-neighbour query from %v returned an object at distance %v, the minimum over the %d stored objects is %v (depth %d)", p, got, len(m.Live), best, m.Tree.Depth())
	}
	return ""
}

// knnWrong runs one k-nearest query and judges every slot against the sorted distances of all stored objects.
func knnWrong(m *rtreekit.Model, k int, p geom.Point, dists []float64, stored map[geom.Geom]int, tol float64) string {
	depth := m.Tree.Depth()
	res := m.Tree.NearestNeighbors(k, p)
	if len(res) != k {
		return fmt.Sprintf("NearestNeighbors(%d) returned %d slots", k, len(res))
	}
	want := k
	if len(m.Live) < k {
		want = len(m.Live)
	}
	seen := map[geom.Geom]int{}
	prev := -1.0
	for j, o := range res {
		if j >= want {
			if o != nil {
				return fmt.Sprintf("NearestNeighbors(%d) with %d stored objects: slot %d should be nil", k, len(m.Live), j)
			}
			continue
		}
		if o == nil {
			return fmt.Sprintf("NearestNeighbors(%d, %v) with %d stored objects (depth %d): slot %d is nil", k, p, len(m.Live), depth, j)
		}
		seen[o]++
		if seen[o] > stored[o] {
			return fmt.Sprintf("NearestNeighbors(%d): object %v returned more often than it is stored", k, o)
		}
		d := rtreekit.BoxDist(p, o.Bounds())
		if d < prev-tol {
			return fmt.Sprintf("NearestNeighbors(%d): distances not in non-decreasing order at slot %d", k, j)
		}
		prev = d
		if d != dists[j] && vkit.Off(d-dists[j], tol) {
			return fmt.Sprintf("NearestNeighbors(%d, %v): slot %d is at distance %v but the %d-th smallest distance among the %d stored objects is %v (depth %d)", k, p, j, d, j+1, len(m.Live), dists[j], depth)
		}
	}
	return ""
}

// sparse: a k-nearest search must leave a subtree that holds fewer than k objects. The structure (read through the verif
// snapshot) is searched for subtrees that hold fewer objects than the minimum fill would give them at their level
// (deletes leave such subtrees: a node that underflows is taken out and what is below it is put back as it is), and for
// small subtrees right under the root; for up to eight of them, queries with k one and two above the number of objects
// below are issued from the middle of the subtree's box and from the middle of its first object.
func sparse(m *rtreekit.Model) (msg string, n int) {
	root, _ := m.Tree.VerifSnapshot()
	if root == nil || root.Leaf || len(m.Live) < 2 {
		return "", 0
	}
	type cand struct {
		box   geom.Bounds
		first *geom.Bounds
		c     int
	}
	var cands []cand
	var walk func(nd *rtree.VerifNode, box geom.Bounds, underRoot bool) (int, *geom.Bounds)
	walk = func(nd *rtree.VerifNode, box geom.Bounds, underRoot bool) (int, *geom.Bounds) {
		c := 0
		var first *geom.Bounds
		if nd.Leaf {
			c = len(nd.Objs)
			if c > 0 {
				first = nd.Objs[0].Bounds()
			}
		} else {
			for i, ch := range nd.Children {
				cc, f := walk(ch, nd.Boxes[i], nd == root)
				c += cc
				if first == nil {
					first = f
				}
			}
		}
		if nd != root && c > 0 {
			full := 1
			for l := 0; l <= nd.Level; l++ {
				full *= m.Tree.MinChildren
			}
			if c < full || (underRoot && c <= 12) {
				cands = append(cands, cand{box, first, c})
			}
		}
		return c, first
	}
	walk(root, geom.Bounds{}, false)
	stored := rtreekit.Count(m.Live)
	for i, cd := range cands {
		if i >= 8 {
			break
		}
		pts := []geom.Point{{X: (cd.box.Min.X + cd.box.Max.X) / 2, Y: (cd.box.Min.Y + cd.box.Max.Y) / 2}}
		if cd.first != nil {
			pts = append(pts, geom.Point{X: (cd.first.Min.X + cd.first.Max.X) / 2, Y: (cd.first.Min.Y + cd.first.Max.Y) / 2})
		}
		for _, p := range pts {
			if p.X != p.X || p.Y != p.Y || math.IsInf(p.X, 0) || math.IsInf(p.Y, 0) {
				continue
			}
			dists := m.SortedDists(p)
			for _, k := range []int{cd.c + 1, cd.c + 2} {
				n++
				if msg := knnWrong(m, k, p, dists, stored, eps); msg != "" {
					return fmt.Sprintf("a subtree with box %v holds %d object(s): %s", cd.box, cd.c, msg), n
				}
			}
		}
	}
	return "", n
}

// exploit: the pruning of a k = 1 search relies on every node box being the smallest box around what is below it. When
// the structure (read through the verif snapshot) shows a box that is larger than that, the stored objects that touch
// the side on which it is too large are deleted as well (they are what still makes the too-large box "true" for the
// search), and k = 1 queries are issued from a dense set of points outside that side and all around the box. Only the
// answers of the public queries are judged.
func exploit(m *rtreekit.Model, st rtreekit.Stale) (msg string, removed int) {
	S, T := st.Stored, st.True
	type side struct {
		stale bool
		touch func(b *geom.Bounds) bool
	}
	inY := func(b *geom.Bounds) bool { return b.Max.Y >= S.Min.Y && b.Min.Y <= S.Max.Y }
	inX := func(b *geom.Bounds) bool { return b.Max.X >= S.Min.X && b.Min.X <= S.Max.X }
	sides := []side{
		{S.Min.X < T.Min.X, func(b *geom.Bounds) bool { return b.Min.X < T.Min.X && b.Max.X >= S.Min.X && inY(b) }},
		{S.Max.X > T.Max.X, func(b *geom.Bounds) bool { return b.Max.X > T.Max.X && b.Min.X <= S.Max.X && inY(b) }},
		{S.Min.Y < T.Min.Y, func(b *geom.Bounds) bool { return b.Min.Y < T.Min.Y && b.Max.Y >= S.Min.Y && inX(b) }},
		{S.Max.Y > T.Max.Y, func(b *geom.Bounds) bool { return b.Max.Y > T.Max.Y && b.Min.Y <= S.Max.Y && inX(b) }},
	}
	for _, sd := range sides {
		if !sd.stale {
			continue
		}
		for i := 0; i < len(m.Live) && len(m.Live) > 1; {
			if sd.touch(m.Live[i].Bounds()) {
				if !m.DeleteLive(i) {
					return fmt.Sprintf("Delete of stored object %v returned false", m.Live[i]), removed
				}
				removed++
				continue
			}
			i++
		}
	}
	if len(m.Live) == 0 {
		return "", removed
	}
	w, h := math.Max(S.Max.X-S.Min.X, 1), math.Max(S.Max.Y-S.Min.Y, 1)
	const n = 70
	k := 0
	for i := 0; i <= n; i++ {
		for j := 0; j <= n; j++ {
			p := geom.Point{X: S.Min.X - 1.5*w + 4*w*float64(i)/n + 0.013, Y: S.Min.Y - 1.5*h + 4*h*float64(j)/n + 0.007}
			k++
			if msg := nnWrong(m, p, k%2 == 0); msg != "" {
				return msg, removed
			}
		}
	}
	return "", removed
}

// runWide: see History.Wide.
func runWide(c Case) (v vkit.Verdict) {
	v.Class("wide_nodes_with_overlapping_children")
	v.NonTrivial = true
	var pts []geom.Point
	for i := -c.Wide; i <= c.Wide; i++ {
		x, y := math.Pow(c.WideG, float64(i)), math.Pow(c.WideG, float64(-i))
		pts = append(pts, geom.Point{X: x, Y: y}, geom.Point{X: -x, Y: y}, geom.Point{X: x, Y: -y}, geom.Point{X: -x, Y: -y})
	}
	s := c.WideSeed
	next := func() uint64 {
		s += 0x9e3779b97f4a7c15
		z := s
		z = (z ^ (z >> 30)) * 0xbf58476d1ce4e5b9
		z = (z ^ (z >> 27)) * 0x94d049bb133111eb
		return z ^ (z >> 31)
	}
	for i := len(pts) - 1; i > 0; i-- {
		j := int(next() % uint64(i+1))
		pts[i], pts[j] = pts[j], pts[i]
	}
	tree := rtree.NewTree(c.Min, c.Max)
	for _, p := range pts {
		tree.Insert(p)
	}
	root, _ := tree.VerifSnapshot()
	widest := 0
	var walk func(n *rtree.VerifNode)
	walk = func(n *rtree.VerifNode) {
		if n == nil || n.Leaf {
			return
		}
		if len(n.Boxes) > widest {
			widest = len(n.Boxes)
		}
		for _, ch := range n.Children {
			walk(ch)
		}
	}
	walk(root)
	if widest > 64 {
		v.Class("a_node_with_more_than_64_children")
	}
	for q := 0; q < 400; q++ {
		t := 0.05 + 4*float64(next()>>11)/(1<<53)
		var p geom.Point
		switch q % 4 {
		case 0:
			p = geom.Point{X: 0, Y: t}
		case 1:
			p = geom.Point{X: t, Y: 0}
		case 2:
			p = geom.Point{X: 0, Y: -t}
		default:
			p = geom.Point{X: (float64(next()>>11)/(1<<53) - 0.5) * 0.2, Y: (float64(next()>>11)/(1<<53) - 0.5) * 4}
		}
		best := math.Inf(1)
		for _, o := range pts {
			if d := math.Hypot(o.X-p.X, o.Y-p.Y); d < best {
				best = d
			}
		}
		var got geom.Geom
		if pn := vkit.Catch(func() {
			if q%2 == 0 {
				got = tree.NearestNeighbor(p)
			} else {
				got = tree.NearestNeighbors(1, p)[0]
			}
		}); pn != "" {
			return v.Fail("k = 1 query from %v on a tree of %d points (fan-out %d) panicked: %s", p, len(pts), c.Max, pn)
		}
		gp, ok := got.(geom.Point)
		if !ok {
			return v.Fail("k = 1 query from %v on a tree of %d points (fan-out %d) returned %v", p, len(pts), c.Max, got)
		}
		if d := math.Hypot(gp.X-p.X, gp.Y-p.Y); vkit.Off(d-best, 1e-12*math.Max(1, best)) {
			return v.Fail("k = 1 query from %v on a tree of %d points hugging the axes (fan-out %d, widest node %d children): returned a point at distance %v, the nearest one is at %v", p, len(pts), c.Max, widest, d, best)
		}
	}
	return v
}

func run(c Case) (v vkit.Verdict) {
	if c.Wide > 0 {
		return runWide(c)
	}
	m := rtreekit.NewModel(c)
	var ev rtreekit.Events
	v.Class("kind_" + c.Kind)
	queries, probes, sparseQueries := 0, 0, 0
	for i, op := range c.Ops {
		var msg string
		if p := vkit.Catch(func() {
			switch op.K {
			case "nn", "knn":
				if len(m.Live) == 0 {
					return
				}
				queries++
				p := geom.Point{X: float64(op.Qx)/2 + op.F[0], Y: float64(op.Qy)/2 + op.F[1]}
				tol := eps
				if op.Far != 0 {
					// a query point far away from everything: distances are compared to within 1e-13 of their size
					p.X, p.Y = math.Ldexp(p.X, op.Far), math.Ldexp(p.Y, op.Far)
					tol = 1e-13 * math.Hypot(p.X, p.Y)
					v.Class("far_query_point")
				}
				dists := m.SortedDists(p)
				stored := rtreekit.Count(m.Live)
				depth := m.Tree.Depth()
				if op.K == "nn" {
					o := m.Tree.NearestNeighbor(p)
					if o == nil || stored[o] == 0 {
						msg = fmt.Sprintf("NearestNeighbor(%v) returned %v which is not stored", p, o)
						return
					}
					if d := rtreekit.BoxDist(p, o.Bounds()); d != dists[0] && vkit.Off(d-dists[0], tol) {
						msg = fmt.Sprintf("NearestNeighbor(%v) returned an object at distance %v, the minimum is %v (size %d, depth %d)", p, d, dists[0], len(m.Live), depth)
					}
					return
				}
				k := op.Kn
				if k > len(m.Live)+3 {
					k = len(m.Live) + 3
				}
				if msg = knnWrong(m, k, p, dists, stored, tol); msg != "" {
					return
				}
				want := k
				if len(m.Live) < k {
					want = len(m.Live)
				}
				if depth >= 2 && k >= 2 {
					v.NonTrivial = true
				}
				if want >= 1 && want < len(m.Live) && math.Abs(dists[want-1]-dists[want]) <= eps {
					v.NonTrivial = true
					ev.Refilled = ev.Refilled || false
				}
			case "nnswap":
				if len(m.Live) < 2 {
					return
				}
				queries++
				v.Class("same_point_asked_again_after_one_insert_and_one_delete")
				p := geom.Point{X: float64(op.Qx)/2 + op.F[0], Y: float64(op.Qy)/2 + op.F[1]}
				if msg = nnWrong(m, p, false); msg != "" {
					return
				}
				first := m.Tree.NearestNeighbor(p)
				// an object right on the query point, then some other object (neither the first answer nor the new one) gone
				if msg = m.Step(rtreekit.Op{K: "ins", Box: [4]int{op.Qx / 2, op.Qy / 2, 0, 0}, F: [4]float64{float64(op.Qx%2)/2 + op.F[0], float64(op.Qy%2)/2 + op.F[1], 0, 0}}, &ev, false); msg != "" {
					return
				}
				for k := 0; k < len(m.Live)-1; k++ {
					i := (op.Idx + k) % (len(m.Live) - 1)
					if m.Live[i] != first {
						msg = m.Step(rtreekit.Op{K: "del", Idx: i}, &ev, false)
						break
					}
				}
				if msg != "" {
					return
				}
				if msg = nnWrong(m, p, false); msg == "" {
					msg = nnWrong(m, p, true)
				}
				if msg != "" {
					msg = "the same point asked again after one insert and one delete: " + msg
				}
			case "del":
				defer func() {
					if msg != "" || len(m.Live) == 0 {
						return
					}
					var n int
					if msg, n = sparse(m); msg != "" {
						return
					}
					sparseQueries += n
					for _, st := range rtreekit.StaleBoxes(m.Tree) {
						v.Class("node_box_larger_than_its_subtree_seen")
						var removed int
						if msg, removed = exploit(m, st); msg != "" {
							msg = fmt.Sprintf("a node box %v was left larger than the envelope %v of its subtree; after deleting the %d stored objects on the side where it is too large: %s", st.Stored, st.True, removed, msg)
							return
						}
					}
				}()
				var gone *geom.Bounds
				if c.Probe && len(m.Live) > 0 && m.Tree.Depth() >= 3 {
					gone = m.Live[op.Idx%len(m.Live)].Bounds()
				}
				if msg = m.Step(op, &ev, false); msg == "" && gone != nil {
					probes++
					// around the object just removed and around the two removed before it (a box left too large by an
					// earlier delete stays until an insert passes through it)
					// (boxes left too large by earlier deletes are looked for in the structure, see exploit)
					msg = probe(m, gone)
				}
			default:
				msg = m.Step(op, &ev, false)
				if msg == "" && (op.K == "delnear" || op.K == "delchain") {
					var n int
					msg, n = sparse(m)
					sparseQueries += n
				}
			}
		}); p != "" {
			return v.Fail("op %d (%s) panicked: %s", i, op.K, p)
		}
		if msg != "" {
			return v.Fail("after op %d (%s) of %d [min=%d max=%d kind=%s]: %s", i, op.K, len(c.Ops), c.Min, c.Max, c.Kind, msg)
		}
	}
	if c.EmptyTail > 0 {
		v.Class("tail_of_objects_without_extent")
		var msg string
		if p := vkit.Catch(func() { msg = emptyTail(m, c) }); p != "" {
			return v.Fail("a query after storing an object without extent (geom.NewBounds()) panicked [%d stored objects, min=%d max=%d]: %s", len(m.Live), c.Min, c.Max, p)
		}
		if msg != "" {
			return v.Fail("after storing objects without extent (geom.NewBounds(), infinitely far from every point) [min=%d max=%d kind=%s]: %s", c.Min, c.Max, c.Kind, msg)
		}
		v.NonTrivial = true
	}
	if queries == 0 {
		v.Class("no_query")
	}
	if sparseQueries > 0 {
		v.Class("k_above_the_size_of_a_sparse_subtree_queried")
		v.NonTrivial = true
	}
	if probes > 0 {
		v.Class("probed_after_delete")
		v.NonTrivial = true
	}
	return v
}

func TestProp(t *testing.T) {
	vkit.Main(t, vkit.Spec[Case]{
		ID: "C12",
		Rule: "rapid: trees reached by the C11 history generator (insert/duplicate/delete/drain phases; a quarter of the histories insert-only), fan-out 4-8 or 25/50, objects " +
			"*Bounds/Point/comparable structs on a small integer grid or (a third of the histories) at non-integer positions, zero-width and zero-height boxes included, with hot-spot phases of coincident and nested boxes; interleaved queries NearestNeighbor(p) and NearestNeighbors(k,p) with p on the half-integer grid (plus a fractional offset in float histories) inside, outside " +
			"and on box borders, k in 1..min(12,Size+3). Oracle: own point-box distance; NearestNeighbor returns a stored object at the minimum distance; NearestNeighbors returns k slots, " +
			"first min(k,Size) non-nil stored objects (multiplicity respected) in non-decreasing distance whose j-th distance equals the j-th smallest over all stored objects, the rest nil. " +
			"Half of the histories are probe histories (two thirds of those: fan-out 2..4-6, a build phase of 25-160 inserts and 20-200 alternating deletes and inserts, boxes up to 9 wide, so " +
			"that many deletes act on a tree of four and more levels): every delete on a tree of depth>=3 is followed by 80 k=1 queries (NearestNeighbor and NearestNeighbors(1,.) alternately) from sixteen directions at five " +
			"distances around the removed object, each compared with the minimum over all stored objects. After EVERY delete of every history the structure is read through the verif snapshot; if a node box is larger than the " +
			"envelope of its subtree (which the pruning of a k=1 search relies on), the check deletes the stored objects lying on the side where the box is too large and issues 5041 k=1 queries from a grid around that box - " +
			"only the answers of those public queries are judged. " +
			"Non-trivial = a k>=2 query on a tree of depth>=2, a tie at the k-th distance, or a probe battery after a delete. Distinct by case hash." +
			" Round 9: after deleting steps the snapshot is searched for sparse subtrees (fewer objects than the minimum fill of their level gives, or <= 12 right under the root) and k-nearest queries with k one and two above their size are issued from the middle of their box and of their first object; one query point in ten is multiplied by 2^300..2^1015." +
			" Round 10: 'nnrep' (the point of the last k = 1 query again, bit for bit) and 'nnswap' (ask, insert an object on the point, delete another object, ask again) in one query op out of seven each." +
			" Round 11: 'wide' cases (1 in 300): fan-out 66-128, the points (+-g^i, +-g^-i) for |i| <= 1500..3000 in a drawn order, 400 k = 1 queries from the axes and around the origin." +
			" Round 13: one history in eight ends with a tail that stores one to three objects without extent (geom.NewBounds(), at infinite distance) and queries k = 1, Size-1, Size and Size+1 after each: they are stored objects and take the last slots.",
		Assumptions: []string{"ties are compared by distance, not identity", "queries are only issued on non-empty trees", "the search for misleading node boxes reads the structure through the build-tag verif snapshot (index/rtree/verif_walk.go); verdicts come from NearestNeighbor / NearestNeighbors only",
			"coordinates stay below the magnitude (about 1e150) at which the package's squared distances and box areas overflow: beyond it Insert's area comparisons and the MaxFloat64 'nothing found yet' marker of the queries stop working (observed by a round-6 author: points at 1e200 queried from the origin give nil slots), which is a limit of the whole package, not of the search order this property is about"},
		Gen:      gen,
		Run:      run,
		NSamples: 2,
	})
}
