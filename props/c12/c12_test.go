//go:build verif

// C12 — R-tree nearest-neighbour queries return the true nearest objects.
package c12

import (
	"fmt"
	"math"
	"testing"

	"github.com/ctessum/geom"
	"pgregory.net/rapid"
	"verif/props/rtreekit"
	"verif/vkit"
)

type Case = rtreekit.History

func gen(t *rapid.T) Case {
	h := rtreekit.GenHistory(t, "nn")
	if rapid.IntRange(0, 3).Draw(t, "insertonly") == 0 {
		// insert-only histories keep C12 independent of anything delete does
		var ops []rtreekit.Op
		for _, op := range h.Ops {
			if op.K == "ins" || op.K == "dup" || op.K == "nn" || op.K == "knn" {
				ops = append(ops, op)
			}
		}
		h.Ops = ops
	}
	return h
}

const eps = 1e-12

func run(c Case) (v vkit.Verdict) {
	m := rtreekit.NewModel(c)
	var ev rtreekit.Events
	v.Class("kind_" + c.Kind)
	queries := 0
	for i, op := range c.Ops {
		var msg string
		if p := vkit.Catch(func() {
			switch op.K {
			case "nn", "knn":
				if len(m.Live) == 0 {
					return
				}
				queries++
				p := geom.Point{X: float64(op.Qx)/2 + op.F[0], Y: float64(op.Qy)/2 + op.F[1]}
				dists := m.SortedDists(p)
				stored := rtreekit.Count(m.Live)
				depth := m.Tree.Depth()
				if op.K == "nn" {
					o := m.Tree.NearestNeighbor(p)
					if o == nil || stored[o] == 0 {
						msg = fmt.Sprintf("NearestNeighbor(%v) returned %v which is not stored", p, o)
						return
					}
					if d := rtreekit.BoxDist(p, o.Bounds()); vkit.Off(d-dists[0], eps) {
						msg = fmt.Sprintf("NearestNeighbor(%v) returned an object at distance %v, the minimum is %v (size %d, depth %d)", p, d, dists[0], len(m.Live), depth)
					}
					return
				}
				k := op.Kn
				if k > len(m.Live)+3 {
					k = len(m.Live) + 3
				}
				res := m.Tree.NearestNeighbors(k, p)
				if len(res) != k {
					msg = fmt.Sprintf("NearestNeighbors(%d) returned %d slots", k, len(res))
					return
				}
				want := k
				if len(m.Live) < k {
					want = len(m.Live)
				}
				seen := map[geom.Geom]int{}
				prev := -1.0
				for j, o := range res {
					if j >= want {
						if o != nil {
							msg = fmt.Sprintf("NearestNeighbors(%d) with %d stored objects: slot %d should be nil", k, len(m.Live), j)
							return
						}
						continue
					}
					if o == nil {
						msg = fmt.Sprintf("NearestNeighbors(%d, %v) with %d stored objects (depth %d): slot %d is nil", k, p, len(m.Live), depth, j)
						return
					}
					seen[o]++
					if seen[o] > stored[o] {
						msg = fmt.Sprintf("NearestNeighbors(%d): object %v returned more often than it is stored", k, o)
						return
					}
					d := rtreekit.BoxDist(p, o.Bounds())
					if d < prev-eps {
						msg = fmt.Sprintf("NearestNeighbors(%d): distances not in non-decreasing order at slot %d", k, j)
						return
					}
					prev = d
					if vkit.Off(d-dists[j], eps) {
						msg = fmt.Sprintf("NearestNeighbors(%d, %v): slot %d is at distance %v but the %d-th smallest distance among the %d stored objects is %v (depth %d)", k, p, j, d, j+1, len(m.Live), dists[j], depth)
						return
					}
				}
				if depth >= 2 && k >= 2 {
					v.NonTrivial = true
				}
				if want >= 1 && want < len(m.Live) && math.Abs(dists[want-1]-dists[want]) <= eps {
					v.NonTrivial = true
					ev.Refilled = ev.Refilled || false
				}
			default:
				msg = m.Step(op, &ev, false)
			}
		}); p != "" {
			return v.Fail("op %d (%s) panicked: %s", i, op.K, p)
		}
		if msg != "" {
			return v.Fail("after op %d (%s) of %d [min=%d max=%d kind=%s]: %s", i, op.K, len(c.Ops), c.Min, c.Max, c.Kind, msg)
		}
	}
	if queries == 0 {
		v.Class("no_query")
	}
	return v
}

func TestProp(t *testing.T) {
	vkit.Main(t, vkit.Spec[Case]{
		ID: "C12",
		Rule: "rapid: trees reached by the C11 history generator (insert/duplicate/delete/drain phases; a quarter of the histories insert-only), fan-out 4-8 or 25/50, objects " +
			"*Bounds/Point/comparable structs on a small integer grid or (a third of the histories) at non-integer positions, zero-width and zero-height boxes included, with hot-spot phases of coincident and nested boxes; interleaved queries NearestNeighbor(p) and NearestNeighbors(k,p) with p on the half-integer grid (plus a fractional offset in float histories) inside, outside " +
			"and on box borders, k in 1..min(12,Size+3). Oracle: own point-box distance; NearestNeighbor returns a stored object at the minimum distance; NearestNeighbors returns k slots, " +
			"first min(k,Size) non-nil stored objects (multiplicity respected) in non-decreasing distance whose j-th distance equals the j-th smallest over all stored objects, the rest nil. " +
			"Non-trivial = a k>=2 query on a tree of depth>=2, or a tie at the k-th distance. Distinct by case hash.",
		Assumptions: []string{"ties are compared by distance, not identity", "queries are only issued on non-empty trees"},
		Gen:         gen,
		Run:         run,
		NSamples:    2,
	})
}
