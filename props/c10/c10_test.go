// C10 — Reprojection is pointwise, history-independent and structure-preserving.
package c10

import (
	"errors"
	"fmt"
	"math"
	"testing"

	"github.com/ctessum/geom"
	"github.com/ctessum/geom/proj"
	"pgregory.net/rapid"
	"verif/props/projkit"
	"verif/vkit"
)

type Step struct {
	Op  string `json:"op"` // build | call | reparse
	Src int    `json:"src,omitempty"`
	Dst int    `json:"dst,omitempty"`
	Tr  int    `json:"tr,omitempty"`
	Pt  int    `json:"pt,omitempty"`
}

type Case struct {
	Kind string `json:"kind"` // history | geom
	// history
	Unbuildable bool     `json:"unbuildable,omitempty"` // some pool member parses but has no constructible projection
	Defs        []string `json:"defs,omitempty"`        // pool of definitions (PROJ.4 text or registered names)
	// Edited[d] / EditKind[d]: the definition with one parameter changed (x_0 + 1000, or another UTM zone) and which field
	// that is; the history step "copyedit" makes a struct copy of the (possibly already used) SR, sets that exported field and
	// uses the copy from then on - it must behave like a fresh parse of the edited text
	Edited   []string      `json:"edited,omitempty"`
	EditKind []string      `json:"edit_kind,omitempty"`
	EditVal  []float64     `json:"edit_val,omitempty"`
	Inputs   [][][2]vkit.F `json:"inputs,omitempty"` // Inputs[d][k]: point k expressed in system d
	// NBase: the first NBase inputs of every system are the base positions (inside the usable region); they are followed
	// by pairs of inputs that differ only in the sign of a zero coordinate (step "twin" calls both members of a pair one
	// after the other) and by the four inputs on which a transformer is likely to fail. 0 = all but the last four.
	NBase int    `json:"nbase,omitempty"`
	Steps []Step `json:"steps,omitempty"`
	Hop   bool   `json:"hop,omitempty"`  // some pair needs the intermediate WGS84 step (generator label)
	Axis  bool   `json:"axis,omitempty"` // some definition has a non-default axis order
	// geom
	G      *vkit.GJ   `json:"g,omitempty"`
	Aff    [6]float64 `json:"aff,omitempty"`
	FailAt int        `json:"fail_at,omitempty"` // 1-based vertex call that fails (0 = never)
	Poison *vkit.P2   `json:"poison,omitempty"`  // input vertex value on which the transformer fails
	Nil    bool       `json:"nil,omitempty"`
}

var wgs = projkit.Def{Proj: "longlat", DatumKind: "name", Datum: "WGS84"}

func freshTransform(src, dst string) (proj.Transformer, error) {
	s, err := proj.Parse(src)
	if err != nil {
		return nil, err
	}
	d, err := proj.Parse(dst)
	if err != nil {
		return nil, err
	}
	return s.NewTransform(d)
}

func callT(tr proj.Transformer, x, y float64) (ox, oy float64, err error, pan string) {
	if tr == nil {
		return x, y, nil, ""
	}
	pan = vkit.Catch(func() { ox, oy, err = tr(x, y) })
	return
}

func gen(t *rapid.T) Case {
	var c Case
	if rapid.IntRange(0, 2).Draw(t, "kind") == 0 {
		c.Kind = "geom"
		g := vkit.GenGJ(t, vkit.GeomOpts{Types: append([]string{"Bounds"}, vkit.AllSeven...), MaxDepth: rapid.IntRange(0, 2).Draw(t, "depth"),
			MinMembers: 0, MaxMembers: 3, MaxPts: 3, Coord: rapid.Float64Range(-100, 100)})
		if rapid.IntRange(0, 19).Draw(t, "deep") == 7 {
			// inside 15 to 66 nested collections
			g = vkit.WrapDeep(g, rapid.SampledFrom([]int{16, 16, 32, 64}).Draw(t, "deepn")+rapid.IntRange(-1, 2).Draw(t, "deepoff"), rapid.Uint64().Draw(t, "deeppat"))
		}
		c.G = &g
		for i := range c.Aff {
			c.Aff[i] = float64(rapid.IntRange(-3, 3).Draw(t, "aff"))
		}
		n := g.NumVertices()
		switch rapid.IntRange(0, 3).Draw(t, "mode") {
		case 0:
			c.Nil = true
		case 1:
			if n > 0 {
				c.FailAt = rapid.IntRange(1, n).Draw(t, "failat")
			}
		case 2:
			if n > 0 {
				p := g.Flatten()[rapid.IntRange(0, n-1).Draw(t, "poison")]
				c.Poison = &p
			}
		}
		return c
	}
	c.Kind = "history"
	// a base position and definitions whose usable regions contain it
	first := projkit.GenDef(t, projkit.Opts{WithAxis: true})
	lon, lat := projkit.GenPosition(t, first)
	defs := []projkit.Def{first}
	nd := rapid.IntRange(2, 4).Draw(t, "ndefs")
	for len(defs) < nd {
		defs = append(defs, projkit.GenDefFor(t, projkit.Opts{Projs: projkit.AllProjs, WithAxis: true, OnlyDatum: rapid.Bool().Draw(t, "onlydatum")}, lon, lat))
	}
	gridTwins := rapid.IntRange(0, 11).Draw(t, "gridtwins") == 5
	gridBoth := gridTwins && rapid.Bool().Draw(t, "gridboth")
	for _, d := range defs {
		s := d.String()
		if rapid.IntRange(0, 9).Draw(t, "named") == 0 {
			s = rapid.SampledFrom([]string{"WGS84", "EPSG:4326", "EPSG:3857", "GOOGLE", "EPSG:4269"}).Draw(t, "name")
		}
		unbuildable := false
		if len(c.Defs) > 0 && rapid.IntRange(0, 7).Draw(t, "unbuildable") == 0 {
			// a definition that parses but whose projection cannot be constructed: every call of a transformer from or
			// to it returns an error, the first call and every later one alike
			s = rapid.SampledFrom([]string{"+proj=utm +ellps=WGS84", "+proj=utm +datum=NAD27", "+proj=lcc +lat_1=30 +lat_2=-30 +ellps=WGS84",
				"+proj=aea +lat_1=30 +lat_2=-30 +ellps=GRS80 +towgs84=1,2,3", "+proj=stere +lat_0=90 +ellps=WGS84", "+proj=nosuchprojection +a=6378137 +b=6356752",
				"+proj=eqdc +lat_1=0 +lat_0=0 +lon_0=0 +ellps=WGS84", "+proj=eqdc +lat_1=30 +lat_2=-30 +lat_0=0 +lon_0=0 +ellps=WGS84", "+proj=lcc +lat_1=0 +lat_0=0 +lon_0=0 +ellps=WGS84",
				"+proj=aea +lat_1=0 +lat_0=0 +lon_0=0 +ellps=WGS84"}).Draw(t, "unb")
			unbuildable = true
			c.Unbuildable = true
		}
		if gridTwins && len(c.Defs) < 2 {
			// two references on one grid-shift datum (the library parses +nadgrids but does not apply grids: a transformer
			// between the two works, because the datums are the same, every transformer to or from another datum fails)
			s = []string{"+proj=longlat +ellps=bessel +nadgrids=foo.gsb +no_defs", "+proj=longlat +ellps=bessel +nadgrids=foo.gsb +pm=paris +no_defs"}[len(c.Defs)]
			if gridBoth {
				// the datum given twice, by grids and by parameters (in either order): whatever the library makes of that, it
				// makes the same of it on every call
				s = []string{"+proj=longlat +ellps=bessel +nadgrids=foo.gsb +towgs84=598.1,73.7,418.2 +no_defs", "+proj=longlat +ellps=bessel +towgs84=598.1,73.7,418.2,0.202,0.045,-2.455,6.7 +nadgrids=foo.gsb +pm=paris +no_defs"}[len(c.Defs)]
			}
			unbuildable = true
			c.Unbuildable = true
		}
		c.Defs = append(c.Defs, s)
		ek, ev, et := "", 0.0, ""
		if s == d.String() && !unbuildable {
			switch d.Proj {
			case "merc", "lcc", "aea", "eqdc", "tmerc":
				e := d
				e.X0 = d.X0 + 1000
				ek, ev, et = "x0", e.X0, e.String()
			case "utm":
				e := d
				e.Zone = d.Zone%60 + 1
				e.Lon0 = float64(6*e.Zone - 183)
				ek, ev, et = "zone", float64(e.Zone), e.String()
			}
		}
		c.EditKind, c.EditVal, c.Edited = append(c.EditKind, ek), append(c.EditVal, ev), append(c.Edited, et)
		if d.Axis != "" && d.Axis != "enu" {
			c.Axis = true
		}
		if d.HasShift() {
			c.Hop = true
		}
	}
	npts := rapid.IntRange(1, 3).Draw(t, "npts")
	pts := make([][2]float64, npts)
	for k := range pts {
		pts[k] = [2]float64{lon + rapid.Float64Range(-0.05, 0.05).Draw(t, "dlon"), lat + rapid.Float64Range(-0.05, 0.05).Draw(t, "dlat")}
	}
	for _, s := range c.Defs {
		row := make([][2]vkit.F, npts)
		for k, p := range pts {
			x, y := p[0], p[1]
			if tr, err := freshTransform(wgs.String(), s); err == nil && tr != nil {
				ox, oy, e, pan := callT(tr, p[0], p[1])
				if e == nil && pan == "" && !math.IsNaN(ox) && !math.IsNaN(oy) {
					x, y = ox, oy
				}
			}
			row[k] = [2]vkit.F{vkit.F(x), vkit.F(y)}
		}
		// inputs on which a transformer is likely to fail (pole, latitude out of range, absurd or NaN coordinates): the
		// calls after a failed one are where stale state shows
		// pairs that differ only in the sign of a zero: a zero easting or northing next to a base coordinate or to a
		// northing far beyond anything on the map (where the inverse of a conic projection looks at the sign of x)
		negz := vkit.F(math.Copysign(0, -1))
		for _, o := range []vkit.F{row[0][1], 1e7, 3e7, -3e7} {
			row = append(row, [2]vkit.F{0, o}, [2]vkit.F{negz, o})
		}
		row = append(row, [2]vkit.F{row[0][0], 0}, [2]vkit.F{row[0][0], negz})
		row = append(row, [2]vkit.F{0, 90}, [2]vkit.F{vkit.F(lon), 120}, [2]vkit.F{1e30, -1e30}, [2]vkit.F{vkit.F(math.NaN()), 0})
		c.Inputs = append(c.Inputs, row)
	}
	c.NBase = npts
	const ntwin = 5
	npts += 2*ntwin + 4
	ns := rapid.IntRange(2, 30).Draw(t, "nsteps")
	ntr := 0
	for i := 0; i < ns; i++ {
		op := rapid.SampledFrom([]string{"build", "call", "call", "call", "call", "reparse", "copyedit", "twin"}).Draw(t, "op")
		if ntr == 0 {
			op = "build"
		}
		st := Step{Op: op}
		switch op {
		case "build":
			st.Src = rapid.IntRange(0, nd-1).Draw(t, "src")
			st.Dst = rapid.IntRange(0, nd-1).Draw(t, "dst")
			ntr++
		case "call":
			st.Tr = rapid.IntRange(0, ntr-1).Draw(t, "tr")
			st.Pt = rapid.IntRange(0, npts-1).Draw(t, "pt")
		case "twin": // both members of a pair, one directly after the other, in either order
			st.Tr = rapid.IntRange(0, ntr-1).Draw(t, "tr")
			st.Pt = c.NBase + rapid.IntRange(0, 2*ntwin-1).Draw(t, "twinpt")
		case "reparse", "copyedit":
			st.Src = rapid.IntRange(0, nd-1).Draw(t, "which")
		}
		c.Steps = append(c.Steps, st)
	}
	return c
}

// same: equal up to rounding. Projection constructors fill in defaults in the shared SR (e.g. UTM's k_0, Krovak's
// ellipsoid), which can flip SR.Equal and with it the identity short-cut of NewTransform; identity and
// inverse-then-forward differ by rounding only, so values are compared to 1e-9 relative (0.1 mm in degrees), NaN with NaN.
func same(a, b float64) bool {
	if a == b || (math.IsNaN(a) && math.IsNaN(b)) {
		return true
	}
	return math.Abs(a-b) <= 1e-9*math.Max(1, math.Max(math.Abs(a), math.Abs(b)))
}

func runHistory(c Case) (v vkit.Verdict) {
	v.Class("history")
	cur := append([]string(nil), c.Defs...) // the text each pool slot currently stands for
	srs := make([]*proj.SR, len(c.Defs))
	for i, s := range c.Defs {
		sr, err := proj.Parse(s)
		if err != nil {
			return v.Fail("Parse(%q): %v", s, err)
		}
		srs[i] = sr
	}
	type trans struct {
		tr             proj.Transformer
		src, dst       int
		srcTxt, dstTxt string
		calls          int
	}
	var trs []trans
	maxCalls := 0
	for i, st := range c.Steps {
		switch st.Op {
		case "build":
			var tr proj.Transformer
			var err error
			if p := vkit.Catch(func() { tr, err = srs[st.Src].NewTransform(srs[st.Dst]) }); p != "" {
				return v.Fail("step %d: NewTransform(%q, %q) panicked: %s", i, c.Defs[st.Src], c.Defs[st.Dst], p)
			}
			if err != nil {
				return v.Fail("step %d: NewTransform(%q, %q): %v", i, c.Defs[st.Src], c.Defs[st.Dst], err)
			}
			trs = append(trs, trans{tr: tr, src: st.Src, dst: st.Dst, srcTxt: cur[st.Src], dstTxt: cur[st.Dst]})
		case "reparse":
			sr, err := proj.Parse(cur[st.Src])
			if err != nil {
				return v.Fail("step %d: re-Parse: %v", i, err)
			}
			srs[st.Src] = sr
		case "copyedit":
			if st.Src >= len(c.EditKind) || c.EditKind[st.Src] == "" || cur[st.Src] != c.Defs[st.Src] {
				continue
			}
			cp := *srs[st.Src] // a struct copy of a reference that may already have been used
			switch c.EditKind[st.Src] {
			case "x0":
				cp.X0 = c.EditVal[st.Src]
			case "zone":
				cp.Zone = c.EditVal[st.Src]
			}
			srs[st.Src] = &cp
			cur[st.Src] = c.Edited[st.Src]
			v.Class("copyedit")
		case "call", "twin":
			if st.Tr >= len(trs) {
				continue
			}
			tt := &trs[st.Tr]
			nbase := c.NBase
			if nbase == 0 {
				nbase = len(c.Inputs[tt.src]) - 4
			}
			pts := []int{st.Pt}
			if st.Op == "twin" {
				pts = []int{st.Pt, nbase + (st.Pt - nbase) ^ 1} // the other member of the pair
				v.Class("zero_sign_twins_called_consecutively")
			}
			for _, pt := range pts {
				if msg := func() string {
					in := c.Inputs[tt.src][pt]
					x, y := float64(in[0]), float64(in[1])
					gx, gy, gerr, pan := callT(tt.tr, x, y)
					if pan != "" {
						return fmt.Sprintf("step %d: transformer %q -> %q panicked on (%v, %v) (call %d of this transformer): %s", i, c.Defs[tt.src], c.Defs[tt.dst], x, y, tt.calls+1, pan)
					}
					tt.calls++
					if tt.calls > maxCalls {
						maxCalls = tt.calls
					}
					// the reference: freshly parsed definitions, freshly built transformer, first call
					var fx, fy float64
					var ferr error
					ftr, err := freshTransform(tt.srcTxt, tt.dstTxt)
					if err != nil {
						return fmt.Sprintf("fresh NewTransform(%q, %q): %v", tt.srcTxt, tt.dstTxt, err)
					}
					if (ftr == nil || tt.tr == nil) && pt >= nbase {
						// The two references are Equal for at least one of the two builds, so NewTransform may short-cut to the
						// identity. Identity and inverse-then-forward agree inside the usable region (to rounding) but not on the
						// zero-sign pairs and the four deliberately failing inputs, which are far outside it; those are only used on
						// real transformers.
						return ""
					}
					var fpan string
					fx, fy, ferr, fpan = callT(ftr, x, y)
					if fpan != "" {
						return fmt.Sprintf("fresh transformer %q -> %q panicked on (%v, %v): %s", c.Defs[tt.src], c.Defs[tt.dst], x, y, fpan)
					}
					// two real transformers are the same function of their arguments: bit for bit. (Only when one of the two is
					// the identity short cut - Equal references - is the comparison up to rounding.)
					eq := same
					if ftr != nil && tt.tr != nil {
						eq = func(a, b float64) bool {
							return math.Float64bits(a) == math.Float64bits(b) || (math.IsNaN(a) && math.IsNaN(b))
						}
					}
					if (gerr != nil) != (ferr != nil) || (gerr == nil && (!eq(gx, fx) || !eq(gy, fy))) {
						return fmt.Sprintf("step %d: call %d of transformer %q -> %q on (%v, %v) returned (%v, %v, err=%v); a freshly built transformer returns (%v, %v, err=%v)",
							i, tt.calls, tt.srcTxt, tt.dstTxt, x, y, gx, gy, gerr, fx, fy, ferr)
					}
					return ""
				}(); msg != "" {
					return v.Fail("%s", msg)
				}
			}
		}
	}
	v.NonTrivial = maxCalls >= 2 || c.Hop || c.Axis
	if maxCalls >= 2 {
		v.Class("transformer_called_repeatedly")
	}
	if c.Hop {
		v.Class("wgs84_hop")
	}
	if c.Unbuildable {
		v.Class("unbuildable_pool_member")
	}
	if c.Axis {
		v.Class("non_enu_axis")
	}
	return v
}

var errFake = errors.New("fake transformer failure")

func runGeom(c Case) (v vkit.Verdict) {
	v.Class("geom_" + c.G.T)
	g, sameG := vkit.SharedGeom(*c.G)
	defer func() {
		if m := sameG(); m != "" && !v.Bad {
			v = v.Fail("the call changed the geometry it was given (point lists are sub-slices of one array with spare capacity): %s", m)
		}
	}()

	before, _ := vkit.FromGeom(g)
	verts := c.G.Flatten()
	a := c.Aff
	f := func(x, y float64) (float64, float64) { return a[0]*x + a[1]*y + a[2], a[3]*x + a[4]*y + a[5] }
	calls := 0
	var tr proj.Transformer = func(x, y float64) (float64, float64, error) {
		calls++
		if c.FailAt != 0 && calls == c.FailAt {
			return math.NaN(), math.NaN(), errFake
		}
		if c.Poison != nil && x == float64(c.Poison[0]) && y == float64(c.Poison[1]) {
			return math.NaN(), math.NaN(), errFake
		}
		ox, oy := f(x, y)
		return ox, oy, nil
	}
	if c.Nil {
		tr = nil
		v.Class("nil_transformer")
	}
	var out geom.Geom
	var err error
	if p := vkit.Catch(func() { out, err = g.Transform(tr) }); p != "" {
		return v.Fail("%s.Transform panicked: %s", c.G.T, p)
	}
	if after, _ := vkit.FromGeom(g); !after.Equal(before, true) {
		return v.Fail("%s.Transform modified its input", c.G.T)
	}
	if c.Nil {
		oj, ok := vkit.FromGeom(out)
		if err != nil || !ok || !oj.Equal(*c.G, true) {
			return v.Fail("nil transformer: got %v, %v; want the geometry itself", out, err)
		}
		if b, isB := g.(*geom.Bounds); isB && out != geom.Geom(b) {
			return v.Fail("nil transformer on *Bounds did not return the same box")
		}
		return v
	}
	// does a vertex fail?
	failIdx := -1
	for i, p := range verts {
		if (c.FailAt != 0 && i+1 == c.FailAt) || (c.Poison != nil && p == *c.Poison) {
			failIdx = i
			break
		}
	}
	if failIdx >= 0 {
		v.Class("failing_vertex")
		firstMember := 1
		switch c.G.T {
		case "MultiLineString", "Polygon":
			if len(c.G.Rings) > 0 {
				firstMember = len(c.G.Rings[0])
			}
		case "MultiPolygon":
			if len(c.G.Polys) > 0 {
				firstMember = len(vkit.GJ{T: "Polygon", Rings: c.G.Polys[0]}.Flatten())
			}
		case "GeometryCollection":
			if len(c.G.Geoms) > 0 {
				firstMember = c.G.Geoms[0].NumVertices()
			}
		}
		v.NonTrivial = failIdx >= firstMember
		if !errors.Is(err, errFake) {
			return v.Fail("%s.Transform with a transformer failing on vertex %d of %d returned err=%v; want the transformer's error", c.G.T, failIdx+1, len(verts), err)
		}
		return v
	}
	if err != nil {
		return v.Fail("%s.Transform returned %v although no vertex fails", c.G.T, err)
	}
	v.NonTrivial = c.G.Depth() >= 1 || len(verts) >= 2
	oj, ok := vkit.FromGeom(out)
	if !ok {
		return v.Fail("%s.Transform returned %T", c.G.T, out)
	}
	want := mapGJ(*c.G, f)
	if !oj.Equal(want, true) {
		return v.Fail("%s.Transform: got %+v, want type/nesting-preserving pointwise map %+v", c.G.T, oj, want)
	}
	return v
}

func mapPts(p []vkit.P2, f func(x, y float64) (float64, float64)) []vkit.P2 {
	out := make([]vkit.P2, len(p))
	for i, q := range p {
		x, y := f(float64(q[0]), float64(q[1]))
		out[i] = vkit.MkP(x, y)
	}
	return out
}

// mapGJ is the expected result: same type and nesting (a *Bounds becomes its 4-corner polygon), every vertex mapped.
func mapGJ(g vkit.GJ, f func(x, y float64) (float64, float64)) vkit.GJ {
	o := vkit.GJ{T: g.T}
	switch g.T {
	case "Bounds":
		return vkit.GJ{T: "Polygon", Rings: [][]vkit.P2{mapPts(g.Flatten(), f)}}
	case "Point", "MultiPoint", "LineString":
		o.Pts = mapPts(g.Pts, f)
	case "MultiLineString", "Polygon":
		for _, r := range g.Rings {
			o.Rings = append(o.Rings, mapPts(r, f))
		}
	case "MultiPolygon":
		for _, p := range g.Polys {
			var rr [][]vkit.P2
			for _, r := range p {
				rr = append(rr, mapPts(r, f))
			}
			o.Polys = append(o.Polys, rr)
		}
	case "GeometryCollection":
		for _, m := range g.Geoms {
			o.Geoms = append(o.Geoms, mapGJ(m, f))
		}
	}
	return o
}

func run(c Case) vkit.Verdict {
	if c.Kind == "geom" {
		return runGeom(c)
	}
	return runHistory(c)
}

func TestProp(t *testing.T) {
	_ = fmt.Sprint
	vkit.Main(t, vkit.Spec[Case]{
		ID: "C10",
		Rule: "rapid, stateful: a pool of 2-4 spatial references (C08 definition generator with +axis values other than enu, named/explicit datums needing the WGS84 step, registered names such " +
			"as EPSG:3857; 1 member in 8 is a definition that parses but has no constructible projection - utm without zone, lcc/aea with opposite parallels, unknown projection name -, so every call through it must keep returning an error) whose usable regions share a position; a history of 2-30 steps: build a transformer between two pool members (sharing the parsed SR objects), call transformer i on point k (valid points of the shared region, and four inputs on which transformers tend to fail: the pole, latitude 120, 1e30 and NaN) " +
			"(repeatedly, interleaved with other transformers), re-parse a definition, or replace a pool member by a struct copy of itself with one exported field edited (x_0 + 1000 or another UTM zone; from then on the slot stands for the edited definition). After every call the result (values to 1e-9 relative - rounding only -, NaN with NaN, and error-ness) must equal what a transformer freshly " +
			"built from freshly parsed definitions returns on its first call; no panic. Geometry part: all eight types (nested collections, empty members) with a pure integer affine fake transformer that " +
			"fails on the k-th vertex call or on a poisoned vertex, or a nil transformer: result has the same type and nesting (a *Bounds becomes its 4-corner polygon) with vertex i = t(vertex i), the " +
			"input is unchanged, nil returns the geometry itself, a failing vertex yields exactly the transformer's error. Non-trivial = some transformer called >=2 times, or a pair with a datum shift, or " +
			"axis != enu; geometry cases with the failing vertex outside the first member, or nested / multi-vertex successes. Distinct by case hash." +
			" Round 9: two real transformers of one history are compared bit for bit; pools pair a GRS80 reference carrying a shift with a WGS84 one." +
			" Round 11: half of the grid-shift pools give the datum twice, by +nadgrids and by +towgs84.",
		Assumptions: []string{"single-goroutine histories (the property is about call history, not concurrent use)"},
		Gen:         gen,
		Run:         run,
		NSamples:    4,
	})
}
