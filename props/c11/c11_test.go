//go:build verif

// C11 — R-tree search answers equal a brute-force scan after any insert/delete history.
package c11

import (
	"fmt"
	"math"
	"testing"

	"github.com/ctessum/geom"
	"github.com/ctessum/geom/index/rtree"
	"pgregory.net/rapid"
	"verif/props/rtreekit"
	"verif/vkit"
)

type Case = rtreekit.History

func gen(t *rapid.T) Case {
	c := rtreekit.GenHistory(t, "search")
	if rapid.IntRange(0, 5).Draw(t, "nantail") == 0 {
		c.NaNTail = rapid.IntRange(1, 6).Draw(t, "nantailn")
	}
	return c
}

// nanTail: see History.NaNTail
func nanTail(tr *rtree.Rtree, c Case) string {
	var nans []*geom.Bounds
	size := tr.Size()
	for i := 0; i < 3*c.Max+c.NaNTail; i++ {
		x, y := float64(i*5%17), float64(i*3%13)
		b := &geom.Bounds{Min: geom.Point{X: x, Y: y}, Max: geom.Point{X: x + float64(i%3), Y: y + float64(i%2)}}
		if i%(3*c.Max/c.NaNTail+1) == 1 && len(nans) < c.NaNTail {
			switch len(nans) % 4 {
			case 0:
				b.Min.X = math.NaN()
			case 1:
				b.Max.Y = math.NaN()
			case 2:
				b.Min.Y = math.NaN()
			default:
				b.Max.X = math.NaN()
			}
			nans = append(nans, b)
		}
		tr.Insert(b)
		size++
	}
	if tr.Size() != size {
		return fmt.Sprintf("Size() = %d after the inserts of the tail, %d objects are stored", tr.Size(), size)
	}
	absent := &geom.Bounds{Min: geom.Point{X: math.NaN(), Y: 1}, Max: geom.Point{X: 2, Y: 2}}
	if tr.Delete(absent) {
		return "Delete of a *Bounds that was never stored (its box has a NaN coordinate) returned true"
	}
	for k, b := range nans {
		if !tr.Delete(b) {
			return fmt.Sprintf("Delete of stored object %d of the tail, a *Bounds %+v (found by identity, whatever its box), returned false", k, *b)
		}
		size--
		if tr.Size() != size {
			return fmt.Sprintf("Size() = %d after deleting object %d of the tail, %d objects are stored", tr.Size(), k, size)
		}
	}
	return ""
}

func sameMultiset(got []geom.Geom, want []geom.Geom) string {
	for _, g := range got {
		if g == nil {
			return "search result contains a nil entry"
		}
	}
	a, b := rtreekit.Count(got), rtreekit.Count(want)
	for k, n := range b {
		if a[k] != n {
			return fmt.Sprintf("object %v stored %d time(s) intersecting the query is returned %d time(s)", k, n, a[k])
		}
	}
	for k, n := range a {
		if b[k] != n {
			return fmt.Sprintf("object %v returned %d time(s) but expected %d", k, n, b[k])
		}
	}
	return ""
}

func run(c Case) (v vkit.Verdict) {
	m := rtreekit.NewModel(c)
	var ev rtreekit.Events
	v.Class("kind_" + c.Kind)
	v.Class(fmt.Sprintf("max_%d", c.Max))
	everything := &geom.Bounds{Min: geom.Point{X: -1e9, Y: -1e9}, Max: geom.Point{X: 1e9, Y: 1e9}}
	for i, op := range c.Ops {
		var msg string
		if p := vkit.Catch(func() {
			switch op.K {
			case "search":
				qx0, qy0 := float64(op.Box[0])+op.F[0], float64(op.Box[1])+op.F[1]
				q := &geom.Bounds{Min: geom.Point{X: qx0, Y: qy0},
					Max: geom.Point{X: qx0 + float64(op.Box[2]) + op.F[2], Y: qy0 + float64(op.Box[3]) + op.F[3]}}
				var want []geom.Geom
				for _, o := range m.Live {
					if rtreekit.Intersects(o.Bounds(), q) {
						want = append(want, o)
					}
				}
				if s := sameMultiset(m.Tree.SearchIntersect(q), want); s != "" {
					msg = fmt.Sprintf("SearchIntersect(%+v): %s", *q, s)
				}
			default:
				msg = m.Step(op, &ev, true)
				if msg != "" {
					return
				}
				if m.Tree.Size() != len(m.Live) {
					msg = fmt.Sprintf("Size() = %d, %d objects are stored", m.Tree.Size(), len(m.Live))
					return
				}
				st, s := rtreekit.CheckStructure(m.Tree)
				if s != "" {
					msg = s
					return
				}
				if st.Depth > ev.MaxDepth {
					ev.MaxDepth = st.Depth
				}
				var all []geom.Geom // every stored object except those without any point
				for _, o := range m.Live {
					if rtreekit.Intersects(o.Bounds(), everything) {
						all = append(all, o)
					}
				}
				if s := sameMultiset(m.Tree.SearchIntersect(everything), all); s != "" {
					msg = "covering search: " + s
				}
			}
		}); p != "" {
			return v.Fail("op %d (%s) panicked: %s", i, op.K, p)
		}
		if msg != "" {
			return v.Fail("after op %d (%s) of %d [min=%d max=%d kind=%s]: %s", i, op.K, len(c.Ops), c.Min, c.Max, c.Kind, msg)
		}
	}
	if c.NaNTail > 0 {
		v.Class("tail_of_boxes_with_a_nan_coordinate")
		var msg string
		if p := vkit.Catch(func() { msg = nanTail(m.Tree, c) }); p != "" {
			return v.Fail("the tail of boxes with a NaN coordinate panicked: %s", p)
		}
		if msg != "" {
			return v.Fail("[min=%d max=%d kind=%s] %s", c.Min, c.Max, c.Kind, msg)
		}
	}
	v.NonTrivial = ev.Underflow || ev.RootCollapse || ev.Refilled
	if ev.Underflow {
		v.Class("node_underflow")
	}
	if ev.RootCollapse {
		v.Class("root_collapse")
	}
	if ev.Refilled {
		v.Class("drained_and_refilled")
	}
	v.Class(fmt.Sprintf("maxdepth_%d", ev.MaxDepth))
	return v
}

func TestProp(t *testing.T) {
	vkit.Main(t, vkit.Spec[Case]{
		ID: "C11",
		Rule: "rapid: histories (a third with non-integer coordinates, incl. zero-width and zero-height boxes at float positions) of 1-400 operations (insert-heavy, delete-heavy, mixed and hot-spot phases - the last piles coincident and concentric boxes on one location) (thorough tier: 5% of 800-2500 operations with fan-out 8/25/50 on a 60-unit grid) over trees with max fan-out 4-8 (75%) or 25/50 and 2<=min<=max/2; objects are *Bounds pointers, Point values or comparable " +
			"struct values on a 4/8/20 integer grid (coincident, touching, degenerate boxes frequent); operations: insert, insert a duplicate of a stored object, delete a stored " +
			"object, delete an absent look-alike, delete everything in a strided order, search with a drawn box; insert-heavy and delete-heavy phases alternate. After every mutating " +
			"step: Size, covering search as a multiset, and - through the verif snapshot hook - leaves at one depth = Depth(), every entry box the exact envelope of its subtree, " +
			"fan-out <= max; delete of a stored object returns true, of an absent one false with the dumped structure unchanged; no panic. Non-trivial = the history contains a delete " +
			"that removes a node (underflow) or lowers the depth (root collapse), or drains the tree and refills it. Distinct by case hash." +
			" Round 13: one history in six ends with a tail that stores 3*max finite boxes and 1-6 boxes with a NaN coordinate as pointers and deletes the latter again (Delete true, Size follows, an absent one false, no panic; searches and structure are not judged with such boxes inside).",
		Assumptions: []string{"the structural clauses are read through the build-tag verif snapshot (index/rtree/verif_walk.go)"},
		Gen:         gen,
		Run:         run,
		NSamples:    2,
	})
}
