//go:build verif

// C11 — R-tree search answers equal a brute-force scan after any insert/delete history.
package c11

import (
	"fmt"
	"testing"

	"github.com/ctessum/geom"
	"pgregory.net/rapid"
	"verif/props/rtreekit"
	"verif/vkit"
)

type Case = rtreekit.History

func gen(t *rapid.T) Case { return rtreekit.GenHistory(t, "search") }

func sameMultiset(got []geom.Geom, want []geom.Geom) string {
	for _, g := range got {
		if g == nil {
			return "search result contains a nil entry"
		}
	}
	a, b := rtreekit.Count(got), rtreekit.Count(want)
	for k, n := range b {
		if a[k] != n {
			return fmt.Sprintf("object %v stored %d time(s) intersecting the query is returned %d time(s)", k, n, a[k])
		}
	}
	for k, n := range a {
		if b[k] != n {
			return fmt.Sprintf("object %v returned %d time(s) but expected %d", k, n, b[k])
		}
	}
	return ""
}

func run(c Case) (v vkit.Verdict) {
	m := rtreekit.NewModel(c)
	var ev rtreekit.Events
	v.Class("kind_" + c.Kind)
	v.Class(fmt.Sprintf("max_%d", c.Max))
	everything := &geom.Bounds{Min: geom.Point{X: -1e9, Y: -1e9}, Max: geom.Point{X: 1e9, Y: 1e9}}
	for i, op := range c.Ops {
		var msg string
		if p := vkit.Catch(func() {
			switch op.K {
			case "search":
				qx0, qy0 := float64(op.Box[0])+op.F[0], float64(op.Box[1])+op.F[1]
				q := &geom.Bounds{Min: geom.Point{X: qx0, Y: qy0},
					Max: geom.Point{X: qx0 + float64(op.Box[2]) + op.F[2], Y: qy0 + float64(op.Box[3]) + op.F[3]}}
				var want []geom.Geom
				for _, o := range m.Live {
					if rtreekit.Intersects(o.Bounds(), q) {
						want = append(want, o)
					}
				}
				if s := sameMultiset(m.Tree.SearchIntersect(q), want); s != "" {
					msg = fmt.Sprintf("SearchIntersect(%+v): %s", *q, s)
				}
			default:
				msg = m.Step(op, &ev, true)
				if msg != "" {
					return
				}
				if m.Tree.Size() != len(m.Live) {
					msg = fmt.Sprintf("Size() = %d, %d objects are stored", m.Tree.Size(), len(m.Live))
					return
				}
				st, s := rtreekit.CheckStructure(m.Tree)
				if s != "" {
					msg = s
					return
				}
				if st.Depth > ev.MaxDepth {
					ev.MaxDepth = st.Depth
				}
				var all []geom.Geom // every stored object except those without any point
				for _, o := range m.Live {
					if rtreekit.Intersects(o.Bounds(), everything) {
						all = append(all, o)
					}
				}
				if s := sameMultiset(m.Tree.SearchIntersect(everything), all); s != "" {
					msg = "covering search: " + s
				}
			}
		}); p != "" {
			return v.Fail("op %d (%s) panicked: %s", i, op.K, p)
		}
		if msg != "" {
			return v.Fail("after op %d (%s) of %d [min=%d max=%d kind=%s]: %s", i, op.K, len(c.Ops), c.Min, c.Max, c.Kind, msg)
		}
	}
	v.NonTrivial = ev.Underflow || ev.RootCollapse || ev.Refilled
	if ev.Underflow {
		v.Class("node_underflow")
	}
	if ev.RootCollapse {
		v.Class("root_collapse")
	}
	if ev.Refilled {
		v.Class("drained_and_refilled")
	}
	v.Class(fmt.Sprintf("maxdepth_%d", ev.MaxDepth))
	return v
}

func TestProp(t *testing.T) {
	vkit.Main(t, vkit.Spec[Case]{
		ID: "C11",
		Rule: "rapid: histories (a third with non-integer coordinates, incl. zero-width and zero-height boxes at float positions) of 1-400 operations (insert-heavy, delete-heavy, mixed and hot-spot phases - the last piles coincident and concentric boxes on one location) (thorough tier: 5% of 800-2500 operations with fan-out 8/25/50 on a 60-unit grid) over trees with max fan-out 4-8 (75%) or 25/50 and 2<=min<=max/2; objects are *Bounds pointers, Point values or comparable " +
			"struct values on a 4/8/20 integer grid (coincident, touching, degenerate boxes frequent); operations: insert, insert a duplicate of a stored object, delete a stored " +
			"object, delete an absent look-alike, delete everything in a strided order, search with a drawn box; insert-heavy and delete-heavy phases alternate. After every mutating " +
			"step: Size, covering search as a multiset, and - through the verif snapshot hook - leaves at one depth = Depth(), every entry box the exact envelope of its subtree, " +
			"fan-out <= max; delete of a stored object returns true, of an absent one false with the dumped structure unchanged; no panic. Non-trivial = the history contains a delete " +
			"that removes a node (underflow) or lowers the depth (root collapse), or drains the tree and refills it. Distinct by case hash.",
		Assumptions: []string{"the structural clauses are read through the build-tag verif snapshot (index/rtree/verif_walk.go)"},
		Gen:         gen,
		Run:         run,
		NSamples:    2,
	})
}
