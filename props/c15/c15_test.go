// C15 — Similar is a symmetric tolerance comparison ignoring only documented reorderings.
package c15

import (
	"fmt"
	"github.com/ctessum/geom"
	"math"
	"testing"

	"pgregory.net/rapid"
	"verif/vkit"
)

type Case struct {
	G    vkit.GJ `json:"g"`
	H    vkit.GJ `json:"h"`
	Tol  float64 `json:"tol"`
	Want bool    `json:"want"`
	Edit string  `json:"edit"` // what was done to derive H from G
}

type builder struct {
	t     *rapid.T
	tol   float64
	nojit bool // positive copies are exact copies (no perturbation)
	block int  // every leaf member gets its own lattice block, so distinct members are far apart
}

// pts draws n pairwise distinct lattice points of the current block; spacing 100*tol.
func (b *builder) pts(n int) []vkit.P2 {
	used := map[[2]int]bool{}
	out := make([]vkit.P2, 0, n)
	S := 100 * b.tol
	for len(out) < n {
		x, y := rapid.IntRange(0, 30).Draw(b.t, "lx"), rapid.IntRange(-15, 15).Draw(b.t, "ly")
		for used[[2]int{x, y}] {
			x++
		}
		used[[2]int{x, y}] = true
		out = append(out, vkit.MkP(float64(b.block*1000+x)*S, float64(y)*S))
	}
	b.block++
	return out
}

// count draws a member size: lo..hi, and in a few per cent of the draws 250-450 (long members).
func (b *builder) count(lo, hi int) int {
	if rapid.IntRange(0, 39).Draw(b.t, "longmember") == 23 {
		return rapid.IntRange(250, 450).Draw(b.t, "nlong")
	}
	return rapid.IntRange(lo, hi).Draw(b.t, "n")
}

// ring: closed, >=3 distinct vertices, with a unique left-most vertex (by a whole lattice step).
func (b *builder) ring() []vkit.P2 {
	n := b.count(2, 6)
	p := b.pts(n)
	S := 100 * b.tol
	minx := float64(p[0][0])
	for _, q := range p {
		if float64(q[0]) < minx {
			minx = float64(q[0])
		}
	}
	anchor := vkit.MkP(minx-S*float64(rapid.IntRange(1, 3).Draw(b.t, "ax")), float64(rapid.IntRange(-15, 15).Draw(b.t, "ay"))*S)
	pos := rapid.IntRange(0, n).Draw(b.t, "apos")
	ins := []vkit.P2{anchor}
	if rapid.IntRange(0, 3).Draw(b.t, "leftedge") == 2 {
		// a vertical left edge (as every axis-parallel rectangle has): two left-most vertices with the same x
		second := vkit.MkP(float64(anchor[0]), float64(anchor[1])+S*float64(rapid.IntRange(1, 4).Draw(b.t, "ay2")))
		ins = []vkit.P2{anchor, second}
		if rapid.Bool().Draw(b.t, "leftedgeorder") {
			ins = []vkit.P2{second, anchor}
		}
	}
	r := append(append(append([]vkit.P2{}, p[:pos]...), ins...), p[pos:]...)
	switch rapid.IntRange(0, 11).Draw(b.t, "repeats") {
	case 3:
		// a vertex written several times in a row (a ring digitised with stops): the sequence overlaps itself there
		i := rapid.IntRange(0, len(r)-1).Draw(b.t, "repat")
		k := rapid.IntRange(1, 3).Draw(b.t, "repk")
		rep := make([]vkit.P2, k)
		for j := range rep {
			rep[j] = r[i]
		}
		r = append(append(append([]vkit.P2{}, r[:i]...), rep...), r[i:]...)
	case 7:
		// a spike run back and forth: P Q P Q P
		i := rapid.IntRange(0, len(r)-1).Draw(b.t, "spikeat")
		p0, q0 := r[i], r[(i+1)%len(r)]
		r = append(append(append([]vkit.P2{}, r[:i]...), p0, q0, p0, q0), r[i:]...)
	}
	return append(r, r[0])
}

// twinRing: a ring with as many vertices as prev that shares prev's left-most vertex (the vertex ring comparison starts
// from) and the 0-2 vertices following it, and has all its other vertices in a block of its own: a look-alike that a
// comparison has to tell from prev only after a matching prefix. The two rings are far apart as point sets.
func (b *builder) twinRing(prev []vkit.P2) []vkit.P2 {
	open := prev[:len(prev)-1]
	n := len(open)
	a := 0
	for i, q := range open {
		if float64(q[0]) < float64(open[a][0]) {
			a = i
		}
	}
	keep := rapid.IntRange(0, 2).Draw(b.t, "twinkeep")
	fresh := b.pts(n)
	r := make([]vkit.P2, n)
	for i := 0; i < n; i++ {
		if d := (i - a + n) % n; d <= keep {
			r[i] = open[i]
		} else {
			r[i] = fresh[i]
		}
	}
	return append(r, r[0])
}

// rings draws nr rings; a later ring is a twin of its predecessor in one case of four.
func (b *builder) rings(nr int) [][]vkit.P2 {
	var out [][]vkit.P2
	for j := 0; j < nr; j++ {
		if j > 0 && rapid.IntRange(0, 3).Draw(b.t, "twin") == 1 {
			out = append(out, b.twinRing(out[j-1]))
			continue
		}
		out = append(out, b.ring())
	}
	return out
}

func (b *builder) geom(depth int) vkit.GJ {
	types := []string{"Point", "MultiPoint", "LineString", "MultiLineString", "Polygon", "MultiPolygon", "Bounds"}
	if depth > 0 {
		types = append(types, "GeometryCollection", "GeometryCollection")
	}
	typ := rapid.SampledFrom(types).Draw(b.t, "type")
	g := vkit.GJ{T: typ}
	switch typ {
	case "Point":
		g.Pts = b.pts(1)
	case "MultiPoint":
		g.Pts = b.pts(b.count(0, 5))
	case "LineString":
		g.Pts = b.pts(b.count(0, 6))
	case "MultiLineString":
		n := rapid.IntRange(0, 4).Draw(b.t, "nm")
		for i := 0; i < n; i++ {
			if i > 0 && len(g.Rings[i-1]) >= 3 && rapid.IntRange(0, 3).Draw(b.t, "twinline") == 1 {
				// a twin of the previous line: same vertex count, same first and last vertex, all interior vertices in a
				// block of its own (two different paths between the same two points)
				prev := g.Rings[i-1]
				tw := b.pts(len(prev))
				tw[0], tw[len(tw)-1] = prev[0], prev[len(prev)-1]
				g.Rings = append(g.Rings, tw)
				continue
			}
			g.Rings = append(g.Rings, b.pts(b.count(1, 5)))
		}
	case "Polygon":
		g.Rings = b.rings(rapid.IntRange(0, 4).Draw(b.t, "nr"))
	case "MultiPolygon":
		n := rapid.IntRange(0, 3).Draw(b.t, "np")
		for i := 0; i < n; i++ {
			nr := rapid.IntRange(1, 3).Draw(b.t, "nr")
			g.Polys = append(g.Polys, b.rings(nr))
		}
	case "Bounds":
		p := b.pts(2)
		S := 100 * b.tol
		g.Pts = []vkit.P2{p[0], vkit.MkP(float64(p[0][0])+S*float64(rapid.IntRange(0, 5).Draw(b.t, "w")), float64(p[0][1])+S*float64(rapid.IntRange(0, 5).Draw(b.t, "h")))}
	case "GeometryCollection":
		n := rapid.IntRange(0, 4).Draw(b.t, "ng")
		for i := 0; i < n; i++ {
			g.Geoms = append(g.Geoms, b.geom(depth-1))
		}
	}
	return g
}

func (b *builder) jit(p vkit.P2) vkit.P2 {
	if b.nojit {
		return p
	}
	d := func() float64 { return rapid.Float64Range(-0.98, 0.98).Draw(b.t, "jit") * b.tol }
	return vkit.MkP(float64(p[0])+d(), float64(p[1])+d())
}
func (b *builder) jitPts(p []vkit.P2) []vkit.P2 {
	out := make([]vkit.P2, len(p))
	for i := range p {
		out[i] = b.jit(p[i])
	}
	return out
}

// jitRing perturbs a closed ring (the closing vertex stays identical to the first, or - a quarter of the time - is
// perturbed on its own) and rotates its start vertex.
func (b *builder) jitRing(r []vkit.P2, nontriv *bool) []vkit.P2 {
	n := len(r) - 1
	open := b.jitPts(r[:n])
	rot := rapid.IntRange(0, n-1).Draw(b.t, "rot")
	if rot != 0 {
		*nontriv = true
	}
	out := append(append([]vkit.P2{}, open[rot:]...), open[:rot]...)
	if rapid.IntRange(0, 3).Draw(b.t, "closingjit") == 1 {
		// the closing vertex is a coordinate pair like any other: perturbed on its own, not copied from the first
		*nontriv = true
		return append(out, b.jit(r[(rot)%n]))
	}
	return append(out, out[0])
}

func permute[T any](b *builder, s []T, nontriv *bool) []T {
	if len(s) < 2 {
		return append([]T(nil), s...)
	}
	idx := make([]int, len(s))
	for i := range idx {
		idx[i] = i
	}
	perm := rapid.Permutation(idx).Draw(b.t, "perm")
	out := make([]T, len(s))
	for i, j := range perm {
		out[i] = s[j]
		if i != j {
			*nontriv = true
		}
	}
	return out
}

// positive derives a geometry that must be similar: perturbation, documented reorderings, ring rotation.
func (b *builder) positive(g vkit.GJ, nontriv *bool) vkit.GJ {
	h := vkit.GJ{T: g.T}
	switch g.T {
	case "Point", "MultiPoint", "LineString", "Bounds":
		h.Pts = b.jitPts(g.Pts)
	case "MultiLineString":
		for _, l := range permute(b, g.Rings, nontriv) {
			h.Rings = append(h.Rings, b.jitPts(l))
		}
	case "Polygon":
		for _, r := range permute(b, g.Rings, nontriv) {
			h.Rings = append(h.Rings, b.jitRing(r, nontriv))
		}
	case "MultiPolygon":
		for _, p := range permute(b, g.Polys, nontriv) {
			var rings [][]vkit.P2
			for _, r := range permute(b, p, nontriv) {
				rings = append(rings, b.jitRing(r, nontriv))
			}
			h.Polys = append(h.Polys, rings)
		}
	case "GeometryCollection":
		for _, m := range permute(b, g.Geoms, nontriv) {
			h.Geoms = append(h.Geoms, b.positive(m, nontriv))
		}
	}
	return h
}

func insertAt[T any](b *builder, s []T, v T) []T {
	pos := rapid.IntRange(0, len(s)).Draw(b.t, "inspos")
	out := append([]T{}, s[:pos]...)
	out = append(out, v)
	return append(out, s[pos:]...)
}
func deleteAt[T any](b *builder, s []T) []T {
	pos := rapid.IntRange(0, len(s)-1).Draw(b.t, "delpos")
	return append(append([]T{}, s[:pos]...), s[pos+1:]...)
}

func (b *builder) displace(p vkit.P2) vkit.P2 {
	d := rapid.Float64Range(2, 50).Draw(b.t, "disp") * b.tol
	if rapid.Bool().Draw(b.t, "neg") {
		d = -d
	}
	if rapid.Bool().Draw(b.t, "axis") {
		return vkit.MkP(float64(p[0])+d, float64(p[1]))
	}
	return vkit.MkP(float64(p[0]), float64(p[1])+d)
}

// negative applies one edit after which the geometries must not be similar; ok=false if no edit applies here.
func (b *builder) negative(h vkit.GJ) (vkit.GJ, string, bool) {
	t := b.t
	var edits []string
	switch h.T {
	case "Point":
		edits = []string{"displace", "type"}
	case "Bounds":
		edits = []string{"displace", "type"}
	case "MultiPoint":
		edits = []string{"insert", "type"}
		if len(h.Pts) > 0 {
			edits = append(edits, "displace", "delete")
		}
	case "LineString":
		edits = []string{"insert", "type"}
		if len(h.Pts) > 0 {
			edits = append(edits, "displace", "delete")
		}
		if len(h.Pts) >= 2 {
			edits = append(edits, "reverse")
		}
	case "MultiLineString":
		edits = []string{"insert_member", "type"}
		if len(h.Rings) > 0 {
			edits = append(edits, "delete_member", "displace", "insert", "delete", "reverse_member")
		}
	case "Polygon":
		edits = []string{"insert_member", "type"}
		if len(h.Rings) > 0 {
			edits = append(edits, "delete_member", "displace", "insert", "delete")
		}
	case "MultiPolygon":
		edits = []string{"insert_member", "type"}
		if len(h.Polys) > 0 {
			edits = append(edits, "delete_member", "inner")
		}
	case "GeometryCollection":
		edits = []string{"insert_member", "type"}
		if len(h.Geoms) > 0 {
			edits = append(edits, "delete_member", "inner", "inner")
		}
	}
	e := rapid.SampledFrom(edits).Draw(t, "edit")
	out := h
	ringEdit := func(r []vkit.P2, closed bool) ([]vkit.P2, bool) {
		switch e {
		case "displace":
			i := rapid.IntRange(0, len(r)-1).Draw(t, "vi")
			rr := append([]vkit.P2{}, r...)
			rr[i] = b.displace(rr[i])
			if closed && (i == 0 || i == len(r)-1) {
				// first and closing vertex are one vertex of a closed ring and move together - or (half of the time) the
				// displaced one moves alone: a closing vertex is a coordinate pair like any other
				if rapid.Bool().Draw(t, "displaceboth") {
					rr[0], rr[len(r)-1] = rr[i], rr[i]
				}
			}
			return rr, true
		case "insert":
			nb := b.pts(1)[0]
			if closed {
				pos := rapid.IntRange(1, len(r)-1).Draw(t, "inspos")
				return append(append(append([]vkit.P2{}, r[:pos]...), nb), r[pos:]...), true
			}
			return insertAt(b, r, nb), true
		case "delete":
			if closed {
				if len(r) < 3 {
					return r, false
				}
				pos := rapid.IntRange(1, len(r)-2).Draw(t, "delpos")
				return append(append([]vkit.P2{}, r[:pos]...), r[pos+1:]...), true
			}
			if len(r) == 0 {
				return r, false
			}
			return deleteAt(b, r), true
		case "reverse_member":
			if len(r) < 2 {
				return r, false
			}
			rr := make([]vkit.P2, len(r))
			for i := range r {
				rr[len(r)-1-i] = r[i]
			}
			return rr, true
		}
		return r, false
	}
	switch {
	case e == "type":
		switch h.T {
		case "Point":
			out = vkit.GJ{T: "MultiPoint", Pts: h.Pts}
		case "MultiPoint":
			out = vkit.GJ{T: "LineString", Pts: h.Pts}
		case "LineString":
			out = vkit.GJ{T: "MultiPoint", Pts: h.Pts}
		case "MultiLineString":
			out = vkit.GJ{T: "Polygon", Rings: h.Rings}
		case "Polygon":
			out = vkit.GJ{T: "MultiLineString", Rings: h.Rings}
		case "MultiPolygon":
			out = vkit.GJ{T: "GeometryCollection"}
			for _, p := range h.Polys {
				out.Geoms = append(out.Geoms, vkit.GJ{T: "Polygon", Rings: p})
			}
		case "GeometryCollection":
			out = vkit.GJ{T: "MultiPolygon"}
		case "Bounds":
			mn, mx := h.Pts[0], h.Pts[1]
			out = vkit.GJ{T: "Polygon", Rings: [][]vkit.P2{{mn, {mx[0], mn[1]}, mx, {mn[0], mx[1]}, mn}}}
		}
		return out, "type:" + h.T, true
	case h.T == "Point" || h.T == "Bounds":
		out.Pts = append([]vkit.P2{}, h.Pts...)
		i := rapid.IntRange(0, len(h.Pts)-1).Draw(t, "vi")
		out.Pts[i] = b.displace(out.Pts[i])
		return out, "displace:" + h.T, true
	case h.T == "MultiPoint" || h.T == "LineString":
		if e == "reverse" {
			e = "reverse_member"
		}
		r, ok := ringEdit(h.Pts, false)
		out.Pts = r
		return out, e + ":" + h.T, ok
	case e == "insert_member":
		switch h.T {
		case "MultiLineString":
			out.Rings = insertAt(b, h.Rings, b.pts(rapid.IntRange(1, 4).Draw(t, "n")))
		case "Polygon":
			out.Rings = insertAt(b, h.Rings, b.ring())
		case "MultiPolygon":
			out.Polys = insertAt(b, h.Polys, [][]vkit.P2{b.ring()})
		case "GeometryCollection":
			out.Geoms = insertAt(b, h.Geoms, b.geom(0))
		}
		return out, e + ":" + h.T, true
	case e == "delete_member":
		switch h.T {
		case "MultiLineString", "Polygon":
			out.Rings = deleteAt(b, h.Rings)
		case "MultiPolygon":
			out.Polys = deleteAt(b, h.Polys)
		case "GeometryCollection":
			out.Geoms = deleteAt(b, h.Geoms)
		}
		return out, e + ":" + h.T, true
	case h.T == "MultiLineString" || h.T == "Polygon":
		i := rapid.IntRange(0, len(h.Rings)-1).Draw(t, "mi")
		r, ok := ringEdit(h.Rings[i], h.T == "Polygon")
		out.Rings = append([][]vkit.P2{}, h.Rings...)
		out.Rings[i] = r
		return out, e + ":" + h.T, ok
	case e == "inner" && h.T == "MultiPolygon":
		i := rapid.IntRange(0, len(h.Polys)-1).Draw(t, "pi")
		sub, lab, ok := b.negative(vkit.GJ{T: "Polygon", Rings: h.Polys[i]})
		if !ok || sub.T != "Polygon" {
			return h, "", false
		}
		out.Polys = append([][][]vkit.P2{}, h.Polys...)
		out.Polys[i] = sub.Rings
		return out, "inner(" + lab + "):MultiPolygon", true
	case e == "inner" && h.T == "GeometryCollection":
		i := rapid.IntRange(0, len(h.Geoms)-1).Draw(t, "gi")
		sub, lab, ok := b.negative(h.Geoms[i])
		if !ok {
			return h, "", false
		}
		out.Geoms = append([]vkit.GJ{}, h.Geoms...)
		out.Geoms[i] = sub
		return out, "inner(" + lab + "):GeometryCollection", true
	}
	return h, "", false
}

// closure builds a pair of polygons whose rings are spelled with or without the closing vertex: the same rings, perturbed,
// in a drawn order, no start vertex rotated. They are similar exactly when every ring is spelled the same way on both
// sides; a ring that has its closing vertex on one side only has another vertex count there - also when a second ring
// makes up for it the other way round, so that the totals agree.
func (b *builder) closure() (g, h vkit.GJ, want bool, label string) {
	k := rapid.IntRange(2, 3).Draw(b.t, "closurerings")
	var rs [][]vkit.P2 // every ring in a block of its own (no look-alikes: the pairing of the rings has to be unambiguous)
	for i := 0; i < k; i++ {
		rs = append(rs, b.ring())
	}
	mode := rapid.SampledFrom([]string{"same_all_open", "same_mixed", "swap", "swap", "toggle_one", "inexact_closing"}).Draw(b.t, "closuremode")
	cg, ch := make([]bool, k), make([]bool, k) // closed?
	for i := range cg {
		cg[i] = mode != "same_all_open" && rapid.Bool().Draw(b.t, "closedg")
		ch[i] = cg[i]
	}
	want = true
	switch mode {
	case "swap":
		a := rapid.IntRange(0, k-1).Draw(b.t, "swapa")
		bb := (a + rapid.IntRange(1, k-1).Draw(b.t, "swapb")) % k
		cg[a], ch[a], cg[bb], ch[bb] = true, false, false, true
		want = false
	case "toggle_one":
		a := rapid.IntRange(0, k-1).Draw(b.t, "togglea")
		ch[a] = !cg[a]
		want = false
	}
	spell := func(open []vkit.P2, closed bool) []vkit.P2 {
		if closed {
			return append(append([]vkit.P2{}, open...), open[0])
		}
		return append([]vkit.P2{}, open...)
	}
	var gr, hr [][]vkit.P2
	for i, r := range rs {
		open := r[:len(r)-1]
		if mode == "inexact_closing" {
			// g's own closing vertex is a little off its first vertex (by less than tol, as a ring that was itself perturbed
			// has it); h is g with every coordinate - that closing vertex too - perturbed by less than tol
			g := append(append([]vkit.P2{}, open...), b.jit(open[0]))
			gr, hr = append(gr, g), append(hr, b.jitPts(g))
			continue
		}
		gr = append(gr, spell(open, cg[i]))
		hr = append(hr, spell(b.jitPts(open), ch[i]))
	}
	nt := false
	hr = permute(b, hr, &nt)
	g, h = vkit.GJ{T: "Polygon", Rings: gr}, vkit.GJ{T: "Polygon", Rings: hr}
	switch rapid.IntRange(0, 2).Draw(b.t, "closurewrap") {
	case 1:
		g, h = vkit.GJ{T: "MultiPolygon", Polys: [][][]vkit.P2{gr}}, vkit.GJ{T: "MultiPolygon", Polys: [][][]vkit.P2{hr}}
	case 2:
		g, h = vkit.GJ{T: "GeometryCollection", Geoms: []vkit.GJ{g}}, vkit.GJ{T: "GeometryCollection", Geoms: []vkit.GJ{h}}
	}
	return g, h, want, "closure:" + mode
}

// mapCoords applies f to every coordinate of g.
func mapCoords(g vkit.GJ, f func(float64) float64) vkit.GJ {
	mp := func(p []vkit.P2) []vkit.P2 {
		out := make([]vkit.P2, len(p))
		for i, q := range p {
			out[i] = vkit.MkP(f(float64(q[0])), f(float64(q[1])))
		}
		return out
	}
	out := vkit.GJ{T: g.T}
	if g.Pts != nil {
		out.Pts = mp(g.Pts)
	}
	for _, r := range g.Rings {
		out.Rings = append(out.Rings, mp(r))
	}
	for _, pg := range g.Polys {
		var rs [][]vkit.P2
		for _, r := range pg {
			rs = append(rs, mp(r))
		}
		out.Polys = append(out.Polys, rs)
	}
	for _, m := range g.Geoms {
		out.Geoms = append(out.Geoms, mapCoords(m, f))
	}
	return out
}

// coordSlots lists pointers to every coordinate of g (in place).
func coordSlots(g *vkit.GJ) []*vkit.F {
	var out []*vkit.F
	add := func(p []vkit.P2) {
		for i := range p {
			out = append(out, &p[i][0], &p[i][1])
		}
	}
	add(g.Pts)
	for _, r := range g.Rings {
		add(r)
	}
	for _, pg := range g.Polys {
		for _, r := range pg {
			add(r)
		}
	}
	for i := range g.Geoms {
		out = append(out, coordSlots(&g.Geoms[i])...)
	}
	return out
}

// multiplicity: a multi-geometry made of two or three distinct members, some of them several times, against a
// partner with the same members (perturbed, in another order) in the same numbers (similar) or with one copy of a
// member replaced by a copy of another ({X,X,Y} against {X,Y,Y}: every member of either side has a counterpart on the
// other side, but no pairing one to one exists - not similar).
func (b *builder) multiplicity() (g, h vkit.GJ, want bool, label string) {
	typ := rapid.SampledFrom([]string{"MultiLineString", "MultiLineString", "Polygon", "MultiPolygon", "GeometryCollection"}).Draw(b.t, "multype")
	k := rapid.IntRange(2, 3).Draw(b.t, "muldistinct")
	cg := make([]int, k)
	for i := range cg {
		cg[i] = rapid.IntRange(1, 3).Draw(b.t, "mulcount")
	}
	ch := append([]int(nil), cg...)
	want = rapid.IntRange(0, 2).Draw(b.t, "mulsame") == 0
	if !want {
		from := rapid.IntRange(0, k-1).Draw(b.t, "mulfrom")
		if cg[from] == 1 {
			cg[from], ch[from] = 2, 2 // the member that gives one away keeps one
		}
		to := (from + rapid.IntRange(1, k-1).Draw(b.t, "multo")) % k
		ch[from]--
		ch[to]++
	}
	type member struct {
		line []vkit.P2
		ring []vkit.P2
	}
	ms := make([]member, k)
	for i := range ms {
		ms[i] = member{line: b.pts(b.count(2, 5)), ring: b.ring()}
	}
	order := func(counts []int, lab string) []int {
		var idx []int
		for i, c := range counts {
			for j := 0; j < c; j++ {
				idx = append(idx, i)
			}
		}
		return rapid.Permutation(idx).Draw(b.t, lab)
	}
	nt := false
	build := func(idx []int, jitter bool) vkit.GJ {
		out := vkit.GJ{T: typ}
		for _, i := range idx {
			line, ring := ms[i].line, ms[i].ring
			if jitter {
				line, ring = b.jitPts(line), b.jitRing(ring, &nt)
			}
			switch typ {
			case "MultiLineString":
				out.Rings = append(out.Rings, line)
			case "Polygon":
				out.Rings = append(out.Rings, ring)
			case "MultiPolygon":
				out.Polys = append(out.Polys, [][]vkit.P2{ring})
			case "GeometryCollection":
				if i%2 == 0 {
					out.Geoms = append(out.Geoms, vkit.GJ{T: "LineString", Pts: line})
				} else {
					out.Geoms = append(out.Geoms, vkit.GJ{T: "Polygon", Rings: [][]vkit.P2{ring}})
				}
			}
		}
		return out
	}
	g = build(order(cg, "mulorderg"), false)
	h = build(order(ch, "mulorderh"), true)
	if want {
		return g, h, true, "multiplicity:same_members_same_numbers"
	}
	return g, h, false, "multiplicity:one_copy_replaced_by_a_copy_of_another_member"
}

func gen(t *rapid.T) Case {
	b := &builder{t: t, tol: rapid.SampledFrom([]float64{1e-6, 1e-3, 0.1, 1}).Draw(t, "tol")}
	var c Case
	c.Tol = b.tol
	if rapid.IntRange(0, 9).Draw(t, "farfine") == 6 {
		// a tolerance finer than the spacing of the floating-point numbers at the coordinates' magnitude (1e-9 at 2^30, or
		// 1e-12 at 2^20): "perturbed by less than tol" leaves only the identical coordinate, and the smallest possible move -
		// one to three steps to the neighbouring floating-point number - is already a displacement by far more than tol
		b.tol, b.nojit = 1, true
		g := b.geom(rapid.IntRange(0, 1).Draw(t, "depth"))
		nt := false
		h := b.positive(g, &nt)
		off, tol := math.Ldexp(1, 30), 1e-9
		if rapid.Bool().Draw(t, "farfine20") {
			off, tol = math.Ldexp(1, 20), 1e-12
		}
		f := func(v float64) float64 { return math.Round(v) + math.Copysign(off, v) }
		c.G, c.H, c.Tol, c.Want, c.Edit = mapCoords(g, f), mapCoords(h, f), tol, true, "farfine:identical"
		if slots := coordSlots(&c.H); len(slots) > 0 && rapid.Bool().Draw(t, "farfinemove") {
			sl := slots[rapid.IntRange(0, len(slots)-1).Draw(t, "farfineslot")]
			v, dir := float64(*sl), math.Inf(1)
			if rapid.Bool().Draw(t, "farfinedown") {
				dir = math.Inf(-1)
			}
			for i, k := 0, rapid.IntRange(1, 3).Draw(t, "farfinesteps"); i < k; i++ {
				v = math.Nextafter(v, dir)
			}
			*sl = vkit.F(v)
			c.Want, c.Edit = false, "farfine:one_coordinate_moved_by_1-3_ulps"
		}
		return c
	}
	if rapid.IntRange(0, 7).Draw(t, "closurecase") == 3 {
		c.G, c.H, c.Want, c.Edit = b.closure()
		return c
	}
	if rapid.IntRange(0, 11).Draw(t, "multiplicity") == 5 {
		c.G, c.H, c.Want, c.Edit = b.multiplicity()
		return c
	}
	c.G = b.geom(rapid.IntRange(0, 2).Draw(t, "depth"))
	nontriv := false
	c.H = b.positive(c.G, &nontriv)
	c.Want = true
	c.Edit = "perturb"
	if nontriv {
		c.Edit = "perturb+reorder"
	}
	if rapid.Bool().Draw(t, "negative") {
		if h, lab, ok := b.negative(c.H); ok {
			c.H, c.Want, c.Edit = h, false, lab
		}
	}
	if rapid.IntRange(0, 29).Draw(t, "deep") == 17 {
		// both operands inside the same 15 to 66 nested collections: the answer is the one for the operands themselves
		depth := rapid.SampledFrom([]int{16, 16, 32, 64}).Draw(t, "deepn") + rapid.IntRange(-1, 2).Draw(t, "deepoff")
		pat := rapid.Uint64().Draw(t, "deeppat")
		c.G, c.H = vkit.WrapDeep(c.G, depth, pat), vkit.WrapDeep(c.H, depth, pat)
		c.Edit += "+nested_deep"
	}
	return c
}

func run(c Case) (v vkit.Verdict) {
	g, sameG := vkit.SharedGeom(c.G)
	h, sameH := vkit.SharedGeom(c.H)
	defer func() {
		if m := sameG(); m != "" && !v.Bad {
			v = v.Fail("the call changed the geometry it was given (point lists are sub-slices of one array with spare capacity): %s", m)
		}
	}()
	defer func() {
		if m := sameH(); m != "" && !v.Bad {
			v = v.Fail("the call changed the geometry it was given (point lists are sub-slices of one array with spare capacity): %s", m)
		}
	}()

	v.Class(fmt.Sprintf("want_%v", c.Want))
	v.Class("top_" + c.G.T)
	v.NonTrivial = c.Edit != "perturb"
	if !c.Want {
		e := c.Edit
		for i := 0; i < len(e); i++ {
			if e[i] == ':' || e[i] == '(' {
				e = e[:i]
				break
			}
		}
		v.Class("edit_" + e)
	}
	var gh, hg bool
	if p := vkit.Catch(func() { gh = g.Similar(h, c.Tol) }); p != "" {
		return v.Fail("g.Similar(h) panicked: %s", p)
	}
	if p := vkit.Catch(func() { hg = h.Similar(g, c.Tol) }); p != "" {
		return v.Fail("h.Similar(g) panicked: %s", p)
	}
	if gh != hg {
		return v.Fail("not symmetric: g.Similar(h)=%v but h.Similar(g)=%v (h derived from g by %s, expected %v)", gh, hg, c.Edit, c.Want)
	}
	if gh != c.Want {
		return v.Fail("Similar = %v, expected %v (h derived from g by %s)", gh, c.Want, c.Edit)
	}
	// reflexivity comes for free
	if !g.Similar(g, c.Tol) {
		return v.Fail("g.Similar(g) = false")
	}
	// aliased operands: a shallow copy of g in which the k-th point list is re-sliced to a strict prefix that shares g's
	// memory (what `line[:n-1]` gives a caller): the vertex counts differ, so the answer is false in both directions
	for k := 0; k < 4; k++ {
		n := k
		a, ok := aliasPrefix(g, &n)
		if !ok {
			break
		}
		v.Class("aliased_prefix_operand")
		var ga, ag bool
		if p := vkit.Catch(func() { ga = g.Similar(a, c.Tol); ag = a.Similar(g, c.Tol) }); p != "" {
			return v.Fail("Similar panicked on an operand that is a re-sliced prefix of the other: %s", p)
		}
		if ga || ag {
			return v.Fail("g.Similar(a)=%v, a.Similar(g)=%v where a is g with point list %d re-sliced to its first n-1 points (sharing memory): vertex counts differ, expected false", ga, ag, k)
		}
	}
	return v
}

// aliasPrefix returns a shallow copy of g whose (*k)-th point list with >= 2 points (in storage order) is re-sliced to
// drop its last point; the point data is shared with g. ok=false when there is no such list.
func aliasPrefix(g geom.Geom, k *int) (geom.Geom, bool) {
	cut := func(p []geom.Point) ([]geom.Point, bool) {
		if len(p) < 2 {
			return p, false
		}
		if *k > 0 {
			*k--
			return p, false
		}
		*k = -1
		return p[: len(p)-1 : len(p)], true
	}
	switch t := g.(type) {
	case geom.MultiPoint:
		q, ok := cut(t)
		return geom.MultiPoint(q), ok
	case geom.LineString:
		q, ok := cut(t)
		return geom.LineString(q), ok
	case geom.MultiLineString:
		out := append(geom.MultiLineString(nil), t...)
		for i := range out {
			if q, ok := cut(out[i]); ok {
				out[i] = geom.LineString(q)
				return out, true
			}
		}
	case geom.Polygon:
		out := append(geom.Polygon(nil), t...)
		for i := range out {
			if q, ok := cut(out[i]); ok {
				out[i] = q
				return out, true
			}
		}
	case geom.MultiPolygon:
		out := append(geom.MultiPolygon(nil), t...)
		for i := range out {
			if q, ok := aliasPrefix(out[i], k); ok {
				out[i] = q.(geom.Polygon)
				return out, true
			}
		}
	case geom.GeometryCollection:
		out := append(geom.GeometryCollection(nil), t...)
		for i := range out {
			if q, ok := aliasPrefix(out[i], k); ok {
				out[i] = q
				return out, true
			}
		}
	}
	return g, false
}

func TestProp(t *testing.T) {
	vkit.Main(t, vkit.Spec[Case]{
		ID: "C15",
		Rule: "rapid: base geometry g of any of the eight types (collections nested to depth 2, members possibly empty; members of 0-6 vertices, a few per cent 250-450) on a lattice of spacing 100*tol with every leaf member in " +
			"its own block (distinct members far apart) and closed rings having a unique left-most vertex by a lattice step (a quarter of the later rings of a polygon are 'twins' of their predecessor: same vertex count, same left-most vertex and up to two following vertices, everything else far away; likewise a quarter of the later members of a multi-line-string share both end points and the vertex count with their predecessor); h = g with every coordinate perturbed by <0.98*tol (the closing vertex of a ring on its own in a quarter of the rings) " +
			"(closing vertex kept equal to the first), members of multi-line-strings/multi-polygons/polygon rings/collections permuted and ring start vertices rotated -> must be " +
			"similar; or additionally one negative edit (other type, member inserted/deleted at any position, vertex inserted/deleted, line reversed, one vertex displaced by " +
			"2-50*tol) at a random nesting level -> must not be similar. Both directions are evaluated and must agree with each other and with the constructed truth. " +
			"Aliasing: g against a shallow copy of itself in which one point list is re-sliced to a strict prefix sharing memory (first four lists) -> false both ways. " +
			"Non-trivial = a non-identity permutation/rotation or a negative edit. Distinct by case hash." +
			" Round 9: rings with runs of equal consecutive vertices and spikes (P Q P), started inside the run." +
			" Round 10: multiplicity cases (1 in 12: two or three distinct members in drawn numbers against the same numbers, or with one copy replaced by a copy of another member).",
		Assumptions: []string{"MultiPoint member order and ring direction are not claimed either way", "a closing vertex is a coordinate pair like any other: perturbed on its own in a quarter of the rings and displaced on its own in half of the displacements that hit it"},
		Gen:         gen,
		Run:         run,
	})
}
