// C19 — ShortestRoute returns a minimum-cost path through the link network.
package c19

import (
	"container/heap"
	"fmt"
	"math"
	"testing"

	"github.com/ctessum/geom"
	"github.com/ctessum/geom/route"
	"pgregory.net/rapid"
	"verif/vkit"
)

type Link struct {
	A     int       `json:"a"` // node indices
	B     int       `json:"b"`
	Mid   []vkit.P2 `json:"mid,omitempty"`
	Speed float64   `json:"speed"`
	Rev   bool      `json:"rev,omitempty"` // geometry given from B to A
	// JitA/JitB: the link's end points are the node coordinates times (1+Jit*1e-13): within the relative tolerance of
	// the node identification but not bit-identical (as coordinates that went through arithmetic are)
	JitA [2]int `json:"jit_a,omitempty"`
	JitB [2]int `json:"jit_b,omitempty"`
}

type Case struct {
	Nodes []vkit.P2 `json:"nodes"`
	Links []Link    `json:"links"`
	Time  bool      `json:"time"` // minimise time instead of distance
	From  vkit.P2   `json:"from"`
	To    vkit.P2   `json:"to"`
	// JitUnit: the relative size of one jitter step (0 = 1e-13). With 3e-10 the ends of the links at one node differ
	// by up to 1.8e-9 relative, just inside the library's tolerance for "the same point" (|a-b|/|a+b| < 1e-9).
	JitUnit float64 `json:"jit_unit,omitempty"`
	// Early: queries issued while the network is still being built (after the first After links); their results are
	// not judged, the final query on the complete network is
	Early []EarlyQ `json:"early,omitempty"`
	// Bisector: the two query points are 2e-10 relative apart, on either side of the bisector of a link
	Bisector bool `json:"bisector,omitempty"`
	// Offset: the whole network and the query points were moved away from the origin by this much (per axis, in the
	// direction of the quadrant); documentation of the generator's choice, the coordinates above include it
	Offset float64 `json:"offset,omitempty"`
	// Micro: the last node and the last link are a node 1.2 identification tolerances from a within-tolerance spelling of
	// another node, and the link between the two
	Micro bool `json:"micro,omitempty"`
	// Trap: the network was moved 1e8 along x only (|x| is a million times |y|, as a long thin strip of map far east of
	// its origin has it), and the last two nodes F and P and the last two links end next to an existing node N: P within
	// N's identification tolerance (which is 0.2 wide in x out there), F a little beside P in y - nearer to P than N
	// is, but not "the same point" as P. A link end is the nearest existing node if that is the same point, else a
	// new node: P is a new node, and the link ending there does not reach N.
	Trap bool `json:"trap,omitempty"`
	// Huge k: every coordinate (nodes, link geometry, query points) was multiplied exactly by 2^k, k from 520 to 700: link
	// lengths are still ordinary float64 numbers, their squares are not
	Huge int `json:"huge,omitempty"`
	// Before (round 13): before the judged query, queries from the SAME starting point to these nodes are issued on
	// the complete network; their results are not judged, but they must not change the answer of the judged one
	Before []int `json:"before,omitempty"`
}

type EarlyQ struct {
	After int     `json:"after"`
	From  vkit.P2 `json:"from"`
	To    vkit.P2 `json:"to"`
}

func gen(t *rapid.T) Case {
	var c Case
	n := rapid.IntRange(2, 30).Draw(t, "nnodes")
	if rapid.IntRange(0, 5).Draw(t, "big") == 0 {
		n = rapid.IntRange(30, 120).Draw(t, "nnodes2")
	}
	if rapid.IntRange(0, 149).Draw(t, "thousands") == 77 {
		// thousands of nodes: the index the network keeps its nodes in (fan-out 25 to 50) gets a third level from
		// about two thousand entries on
		n = rapid.IntRange(2200, 3200).Draw(t, "nnodes3")
	}
	w := int(math.Ceil(math.Sqrt(float64(n)))) + rapid.IntRange(0, 3).Draw(t, "slack")
	used := map[[2]int]bool{}
	for len(c.Nodes) < n {
		x, y := rapid.IntRange(0, w).Draw(t, "nx"), rapid.IntRange(0, w).Draw(t, "ny")
		for used[[2]int{x, y}] {
			x++
		}
		used[[2]int{x, y}] = true
		c.Nodes = append(c.Nodes, vkit.MkP(float64(10+2*x), float64(10+2*y))) // spacing 2, away from 0
	}
	// quadrant: all coordinates positive, or x and/or y negative (mirror image)
	sx, sy := rapid.SampledFrom([]float64{1, 1, -1}).Draw(t, "sx"), rapid.SampledFrom([]float64{1, 1, -1}).Draw(t, "sy")
	for i, p := range c.Nodes {
		c.Nodes[i] = vkit.MkP(sx*float64(p[0]), sy*float64(p[1]))
	}
	jitter := rapid.Bool().Draw(t, "jitter")
	if jitter {
		c.JitUnit = rapid.SampledFrom([]float64{0, 0, 1e-11, 3e-10}).Draw(t, "jitunit")
	}
	has := map[[2]int]bool{}
	addLink := func(a, b int) {
		if a == b {
			return
		}
		if a > b {
			a, b = b, a
		}
		if has[[2]int{a, b}] {
			return
		}
		has[[2]int{a, b}] = true
		l := Link{A: a, B: b, Speed: rapid.OneOf(rapid.Float64Range(0.1, 100), rapid.SampledFrom([]float64{1, 1, 10, 0.5})).Draw(t, "speed"), Rev: rapid.Bool().Draw(t, "rev")}
		if jitter {
			l.JitA = [2]int{rapid.IntRange(-3, 3).Draw(t, "ja"), rapid.IntRange(-3, 3).Draw(t, "jb")}
			l.JitB = [2]int{rapid.IntRange(-3, 3).Draw(t, "jc"), rapid.IntRange(-3, 3).Draw(t, "jd")}
		}
		k := rapid.IntRange(0, 4).Draw(t, "nmid")
		pa, pb := c.Nodes[a], c.Nodes[b]
		for i := 1; i <= k; i++ {
			f := float64(i) / float64(k+1)
			l.Mid = append(l.Mid, vkit.MkP(float64(pa[0])+f*(float64(pb[0])-float64(pa[0]))+rapid.Float64Range(-3, 3).Draw(t, "mx"),
				float64(pa[1])+f*(float64(pb[1])-float64(pa[1]))+rapid.Float64Range(-3, 3).Draw(t, "my")))
		}
		c.Links = append(c.Links, l)
	}
	grid := rapid.IntRange(0, 5).Draw(t, "gridnet") == 0
	if grid {
		// a street grid: every node linked to its lattice neighbours (where both exist), each link bent a little by its
		// mid points, so that between two nodes there are many chains of nearly but not exactly the same cost
		at := map[[2]float64]int{}
		for i, p := range c.Nodes {
			at[[2]float64{float64(p[0]), float64(p[1])}] = i
		}
		for i, p := range c.Nodes {
			for _, d := range [][2]float64{{2, 0}, {0, 2}} {
				if j, ok := at[[2]float64{float64(p[0]) + sx*d[0], float64(p[1]) + sy*d[1]}]; ok {
					addLink(i, j)
				}
			}
		}
		for i := range c.Links { // gentle bends only: the alternatives stay close in cost
			for j := range c.Links[i].Mid {
				a, b := c.Nodes[c.Links[i].A], c.Nodes[c.Links[i].B]
				f := float64(j+1) / float64(len(c.Links[i].Mid)+1)
				c.Links[i].Mid[j] = vkit.MkP(float64(a[0])+f*(float64(b[0])-float64(a[0]))+rapid.Float64Range(-0.4, 0.4).Draw(t, "gmx"),
					float64(a[1])+f*(float64(b[1])-float64(a[1]))+rapid.Float64Range(-0.4, 0.4).Draw(t, "gmy"))
			}
		}
	}
	// a spanning chain over a prefix (connected part), then random extra links; the rest may stay disconnected
	conn := rapid.IntRange(1, n).Draw(t, "connected")
	if grid {
		conn = 1
	}
	if n >= 2000 && !grid {
		conn = n // all of them linked: the network really holds thousands of nodes
	}
	for i := 1; i < conn; i++ {
		addLink(rapid.IntRange(0, i-1).Draw(t, "parent"), i)
	}
	extra := rapid.IntRange(0, 2*n).Draw(t, "extra")
	if grid {
		extra = rapid.IntRange(0, 3).Draw(t, "gridextra")
	}
	for i := 0; i < extra; i++ {
		addLink(rapid.IntRange(0, n-1).Draw(t, "ea"), rapid.IntRange(0, n-1).Draw(t, "eb"))
	}
	if len(c.Links) == 0 {
		addLink(0, 1)
	}
	micro := -1
	if !jitter && rapid.IntRange(0, 7).Draw(t, "microlink") == 3 {
		// a very short link: a new node N only 1.2 times the identification tolerance (in x) from a point E' that is a
		// within-tolerance spelling of an existing node E (a little less than the tolerance off in x AND in y, so farther
		// from E than from N as the crow flies), joined to it by the link N-E'. The link has to end at E.
		var cand []int
		for i, p := range c.Nodes {
			if inLinks := has; inLinks != nil && math.Abs(float64(p[1])) >= 0.9*math.Abs(float64(p[0])) {
				cand = append(cand, i)
			}
		}
		if len(cand) > 0 {
			e := cand[rapid.IntRange(0, len(cand)-1).Draw(t, "microat")]
			used := false
			for _, l := range c.Links {
				if l.A == e || l.B == e {
					used = true
				}
			}
			if used {
				E := c.Nodes[e]
				c.JitUnit = 1e-10
				c.Nodes = append(c.Nodes, vkit.MkP(float64(E[0])*(1+4.2e-9), float64(E[1])*(1+18*1e-10)))
				micro = len(c.Nodes) - 1
				c.Links = append(c.Links, Link{A: micro, B: e, Speed: 1, JitB: [2]int{18, 18}})
				c.Micro = true
			}
		}
	}
	c.Time = rapid.Bool().Draw(t, "time")
	lastNear := -1
	q := func(lbl string) vkit.P2 {
		if rapid.Bool().Draw(t, lbl+"near") {
			k := rapid.IntRange(0, n-1).Draw(t, lbl+"node")
			if k == lastNear && n > 1 && rapid.IntRange(0, 3).Draw(t, lbl+"samenode") > 0 {
				k = (k + 1 + rapid.IntRange(0, n-2).Draw(t, lbl+"othernode")) % n // mostly two different nodes: a route of no links is a trivial case
			}
			lastNear = k
			p := c.Nodes[k]
			return vkit.MkP(float64(p[0])+rapid.Float64Range(-0.9, 0.9).Draw(t, lbl+"dx"), float64(p[1])+rapid.Float64Range(-0.9, 0.9).Draw(t, lbl+"dy"))
		}
		return vkit.MkP(sx*rapid.Float64Range(5, float64(15+2*w)).Draw(t, lbl+"x"), sy*rapid.Float64Range(5, float64(15+2*w)).Draw(t, lbl+"y"))
	}
	c.From, c.To = q("from"), q("to")
	if micro >= 0 {
		c.From = c.Nodes[micro] // start at the new end of the very short link
	}
	if len(c.Links) >= 1 && micro < 0 && rapid.IntRange(0, 7).Draw(t, "bisector") == 3 {
		// two query points a hair apart (1e-10 relative, i.e. "the same point" to the library's point comparison) on
		// either side of the perpendicular bisector of a link: their nearest nodes are the two ends of the link
		l := c.Links[rapid.IntRange(0, len(c.Links)-1).Draw(t, "bislink")]
		a, b := c.Nodes[l.A], c.Nodes[l.B]
		mx, my := (float64(a[0])+float64(b[0]))/2, (float64(a[1])+float64(b[1]))/2
		dx, dy := float64(b[0])-float64(a[0]), float64(b[1])-float64(a[1])
		n := math.Hypot(dx, dy)
		e := 1e-10 * math.Max(math.Abs(mx), math.Abs(my))
		c.From, c.To = vkit.MkP(mx-e*dx/n, my-e*dy/n), vkit.MkP(mx+e*dx/n, my+e*dy/n)
		c.Bisector = true
	}
	if len(c.Links) >= 2 && rapid.IntRange(0, 2).Draw(t, "early") > 0 {
		ne := rapid.IntRange(1, 3).Draw(t, "nearly")
		for i := 0; i < ne; i++ {
			c.Early = append(c.Early, EarlyQ{After: rapid.IntRange(1, len(c.Links)-1).Draw(t, "after"), From: q("efrom"), To: q("eto")})
		}
	}
	if rapid.Bool().Draw(t, "before") {
		for i, nb := 0, rapid.IntRange(1, 6).Draw(t, "nbefore"); i < nb; i++ {
			c.Before = append(c.Before, rapid.IntRange(0, n-1).Draw(t, "beforenode"))
		}
	}
	if !jitter && !c.Bisector && !c.Micro && (rapid.IntRange(0, 4).Draw(t, "faraway") == 2 || grid && rapid.Bool().Draw(t, "gridfar")) {
		// the same network far from the origin: coordinates of 1e5 to 1e8 with links of length 2 to 30 (map coordinates in
		// metres are like that). Only with bit-identical link ends: the library's relative tolerance for "the same point"
		// is an absolute 0.1 out there.
		c.Offset = rapid.SampledFrom([]float64{1e5, 1e6, 1e7, 3e7, 1e8, 1e8}).Draw(t, "offset")
		mv := func(p vkit.P2) vkit.P2 { return vkit.MkP(float64(p[0])+sx*c.Offset, float64(p[1])+sy*c.Offset) }
		for i := range c.Nodes {
			c.Nodes[i] = mv(c.Nodes[i])
		}
		for i := range c.Links {
			for j := range c.Links[i].Mid {
				c.Links[i].Mid[j] = mv(c.Links[i].Mid[j])
			}
		}
		c.From, c.To = mv(c.From), mv(c.To)
		for i := range c.Early {
			c.Early[i].From, c.Early[i].To = mv(c.Early[i].From), mv(c.Early[i].To)
		}
	}
	if !jitter && !c.Bisector && !c.Micro && c.Offset == 0 && len(c.Links) >= 1 && len(c.Nodes) >= 3 && rapid.IntRange(0, 7).Draw(t, "trap") == 4 {
		const off = 1e8
		mv := func(p vkit.P2) vkit.P2 { return vkit.MkP(float64(p[0])+sx*off, float64(p[1])) }
		for i := range c.Nodes {
			c.Nodes[i] = mv(c.Nodes[i])
		}
		for i := range c.Links {
			for j := range c.Links[i].Mid {
				c.Links[i].Mid[j] = mv(c.Links[i].Mid[j])
			}
		}
		for i := range c.Early {
			c.Early[i].From, c.Early[i].To = mv(c.Early[i].From), mv(c.Early[i].To)
		}
		l0 := c.Links[rapid.IntRange(0, len(c.Links)-1).Draw(t, "traplink")]
		nIdx, qIdx := l0.A, l0.B
		N := c.Nodes[nIdx]
		dxp := rapid.Float64Range(0.03, 0.09).Draw(t, "trapdx") * float64(rapid.SampledFrom([]int{-1, 1}).Draw(t, "trapsx"))
		dyf := math.Abs(dxp) * rapid.Float64Range(0.1, 0.5).Draw(t, "trapdy") * float64(rapid.SampledFrom([]int{-1, 1}).Draw(t, "trapsy"))
		P := vkit.MkP(float64(N[0])+dxp, float64(N[1]))
		F := vkit.MkP(float64(P[0]), float64(P[1])+dyf)
		c.Nodes = append(c.Nodes, F, P)
		fIdx, pIdx := len(c.Nodes)-2, len(c.Nodes)-1
		// a third node for F's link, so that the two new links are not parallel
		rIdx := (qIdx + 1) % (len(c.Nodes) - 2)
		for rIdx == nIdx || rIdx == qIdx {
			rIdx = (rIdx + 1) % (len(c.Nodes) - 2)
		}
		c.Links = append(c.Links, Link{A: fIdx, B: rIdx, Speed: 1}, Link{A: pIdx, B: qIdx, Speed: 1})
		c.From, c.To = c.Nodes[qIdx], N
		c.Trap = true
	}
	if !jitter && !c.Bisector && !c.Micro && !c.Trap && c.Offset == 0 && rapid.IntRange(0, 11).Draw(t, "huge") == 5 {
		c.Huge = rapid.SampledFrom([]int{520, 540, 600, 700}).Draw(t, "hugek")
		mv := func(p vkit.P2) vkit.P2 {
			return vkit.MkP(math.Ldexp(float64(p[0]), c.Huge), math.Ldexp(float64(p[1]), c.Huge))
		}
		for i := range c.Nodes {
			c.Nodes[i] = mv(c.Nodes[i])
		}
		for i := range c.Links {
			for j := range c.Links[i].Mid {
				c.Links[i].Mid[j] = mv(c.Links[i].Mid[j])
			}
		}
		c.From, c.To = mv(c.From), mv(c.To)
		for i := range c.Early {
			c.Early[i].From, c.Early[i].To = mv(c.Early[i].From), mv(c.Early[i].To)
		}
	}
	return c
}

func jit(p vkit.P2, j [2]int, unit float64) vkit.P2 {
	if unit == 0 {
		unit = 1e-13
	}
	return vkit.MkP(float64(p[0])*(1+float64(j[0])*unit), float64(p[1])*(1+float64(j[1])*unit))
}

func lineOf(c Case, l Link) geom.LineString {
	pts := []vkit.P2{jit(c.Nodes[l.A], l.JitA, c.JitUnit)}
	pts = append(pts, l.Mid...)
	pts = append(pts, jit(c.Nodes[l.B], l.JitB, c.JitUnit))
	ls := make(geom.LineString, len(pts))
	for i, p := range pts {
		if l.Rev {
			ls[len(pts)-1-i] = p.Pt()
		} else {
			ls[i] = p.Pt()
		}
	}
	return ls
}

func length(ls geom.LineString) float64 {
	s := 0.0
	for i := 0; i+1 < len(ls); i++ {
		s += math.Hypot(ls[i+1].X-ls[i].X, ls[i+1].Y-ls[i].Y)
	}
	return s
}

type pqItem struct {
	node int
	d    float64
}
type pq []pqItem

func (p pq) Len() int            { return len(p) }
func (p pq) Less(i, j int) bool  { return p[i].d < p[j].d }
func (p pq) Swap(i, j int)       { p[i], p[j] = p[j], p[i] }
func (p *pq) Push(x interface{}) { *p = append(*p, x.(pqItem)) }
func (p *pq) Pop() interface{} {
	o := *p
	x := o[len(o)-1]
	*p = o[:len(o)-1]
	return x
}

type adj struct {
	to   int
	cost float64
}

func dijkstra(n int, g [][]adj, s int) []float64 {
	d := make([]float64, n)
	for i := range d {
		d[i] = math.Inf(1)
	}
	d[s] = 0
	h := &pq{{s, 0}}
	for h.Len() > 0 {
		it := heap.Pop(h).(pqItem)
		if it.d > d[it.node] {
			continue
		}
		for _, e := range g[it.node] {
			if nd := it.d + e.cost; nd < d[e.to] {
				d[e.to] = nd
				heap.Push(h, pqItem{e.to, nd})
			}
		}
	}
	return d
}

func run(c Case) (v vkit.Verdict) {
	opt := route.Distance
	if c.Time {
		opt = route.Time
	}
	net := route.NewNetwork(opt)
	n := len(c.Nodes)
	inNet := make([]bool, n)
	g := make([][]adj, n)  // cost graph
	hg := make([][]adj, n) // hop graph
	type lk struct{ a, b int }
	byEnds := map[lk]int{}
	lens := make([]float64, len(c.Links))
	for i, l := range c.Links {
		ls := lineOf(c, l)
		lens[i] = length(ls)
		for _, e := range c.Early {
			if e.After == i {
				v.Class("query_before_network_complete")
				if p := vkit.Catch(func() { net.ShortestRoute(e.From.Pt(), e.To.Pt()) }); p != "" {
					return v.Fail("ShortestRoute on the network of the first %d links panicked: %s", i, p)
				}
			}
		}
		if p := vkit.Catch(func() { net.AddLink(ls, l.Speed) }); p != "" {
			return v.Fail("AddLink %d panicked: %s", i, p)
		}
		cost := lens[i]
		if c.Time {
			cost = lens[i] / l.Speed
		}
		g[l.A] = append(g[l.A], adj{l.B, cost})
		g[l.B] = append(g[l.B], adj{l.A, cost})
		hg[l.A] = append(hg[l.A], adj{l.B, 1})
		hg[l.B] = append(hg[l.B], adj{l.A, 1})
		byEnds[lk{l.A, l.B}], byEnds[lk{l.B, l.A}] = i, i
		inNet[l.A], inNet[l.B] = true, true
	}
	// a node sits at the first link end the library saw, up to 3 jitter steps from the nominal position per coordinate
	posTol := 1e-12
	jstep := 0.0 // the largest displacement of a link end from its node, relative
	for _, l := range c.Links {
		for _, j := range [][2]int{l.JitA, l.JitB} {
			jstep = math.Max(jstep, math.Max(math.Abs(float64(j[0])), math.Abs(float64(j[1]))))
		}
	}
	unit := c.JitUnit
	if unit == 0 {
		unit = 1e-13
	}
	for _, q := range c.Nodes {
		m := math.Max(math.Abs(float64(q[0])), math.Abs(float64(q[1])))
		posTol = math.Max(posTol, (1e-13+1.5*jstep*unit)*m)
	}
	// which of two nodes is nearer is decided by the positions the library holds, each up to jstep steps per coordinate from
	// the nominal one: the two distances compared can each be off by that much (both coordinates), so a tie is anything
	// within twice the displacement of one node
	tieTol := 1e-12
	for _, q := range c.Nodes {
		m := math.Max(math.Abs(float64(q[0])), math.Abs(float64(q[1])))
		tieTol = math.Max(tieTol, (1e-13+2*math.Sqrt2*jstep*unit)*m)
	}
	if c.Bisector {
		v.Class("query_points_a_hair_apart_across_a_bisector")
	}
	nearest := func(p vkit.P2) ([]int, float64) {
		best := math.Inf(1)
		for i, q := range c.Nodes {
			if inNet[i] {
				best = math.Min(best, math.Hypot(float64(q[0])-float64(p[0]), float64(q[1])-float64(p[1])))
			}
		}
		var out []int
		for i, q := range c.Nodes {
			// ties: a node's position is only defined up to the tolerance with which link ends are identified
			// (1e-9 relative; the generator moves link ends by up to a few 1e-13 relative), so any node within that
			// of the minimum is an admissible end
			if inNet[i] && math.Hypot(float64(q[0])-float64(p[0]), float64(q[1])-float64(p[1])) <= best+tieTol {
				out = append(out, i)
			}
		}
		return out, best
	}
	S, ds := nearest(c.From)
	E, de := nearest(c.To)
	var rt geom.MultiLineString
	var dist, tm, sd, ed float64
	for _, k := range c.Before {
		if k < len(c.Nodes) {
			v.Class("after_queries_from_the_same_start")
			vkit.Catch(func() { net.ShortestRoute(c.From.Pt(), c.Nodes[k].Pt()) })
		}
	}
	if p := vkit.Catch(func() { rt, dist, tm, sd, ed = net.ShortestRoute(c.From.Pt(), c.To.Pt()) }); p != "" {
		return v.Fail("ShortestRoute panicked: %s", p)
	}
	if vkit.Off(sd-ds, posTol) || vkit.Off(ed-de, posTol) {
		return v.Fail("startDistance/endDistance = %v/%v, distances to the nearest network nodes are %v/%v", sd, ed, ds, de)
	}
	// identify the returned pieces with input links
	nodeOf := func(p geom.Point) (int, bool) {
		for i, q := range c.Nodes {
			if math.Abs(float64(q[0])-p.X) < 1e-6 && math.Abs(float64(q[1])-p.Y) < 1e-6 {
				return i, true
			}
		}
		return 0, false
	}
	var chain []int
	var sumD, sumT float64
	for k, piece := range rt {
		if len(piece) < 2 {
			return v.Fail("route piece %d has %d vertices", k, len(piece))
		}
		// a piece is a link's own line string, vertex for vertex (nodes that are closer together than the 1e-6 of nodeOf
		// are told apart that way); otherwise by its end nodes
		li, okL := -1, false
		for i, l := range c.Links {
			if ls := lineOf(c, l); len(ls) == len(piece) {
				same := true
				for j := range ls {
					if ls[j] != piece[j] {
						same = false
						break
					}
				}
				if same {
					li, okL = i, true
					break
				}
			}
		}
		if !okL {
			a, okA := nodeOf(piece[0])
			b, okB := nodeOf(piece[len(piece)-1])
			li, okL = byEnds[lk{a, b}]
			if !okA || !okB || !okL {
				return v.Fail("route piece %d is not one of the links", k)
			}
		}
		chain = append(chain, li)
		sumD += lens[li]
		sumT += lens[li] / c.Links[li].Speed
	}
	if vkit.Off(dist-sumD, 1e-9*(1+sumD)) || vkit.Off(tm-sumT, 1e-9*(1+sumT)) {
		return v.Fail("reported distance/time %v/%v, sums over the returned links %v/%v", dist, tm, sumD, sumT)
	}
	cost := sumD
	if c.Time {
		cost = sumT
	}
	v.Class(fmt.Sprintf("time_%v", c.Time))
	if c.Offset != 0 {
		v.Class(fmt.Sprintf("network_%g_from_the_origin", c.Offset))
	}
	if c.Huge != 0 {
		v.Class("coordinates_times_2^520_and_more")
	}
	if len(c.Nodes) >= 2000 {
		v.Class("thousands_of_nodes")
	}
	if c.Trap {
		v.Class("link_end_within_tolerance_of_a_node_that_is_not_its_nearest")
	}
	if c.Micro {
		v.Class("link_barely_longer_than_the_identification_tolerance")
	}
	// some start candidate must make the chain a walk to an end candidate with optimal cost
	var why string
	okAny := false
	for _, s := range S {
		dd := dijkstra(n, g, s)
		if len(chain) == 0 {
			for _, e := range E {
				if e == s || math.IsInf(dd[e], 1) {
					okAny = true
					if e == s {
						v.Class("same_node")
					} else {
						v.Class("disconnected")
					}
				} else {
					why = fmt.Sprintf("route is empty but node %d and node %d are connected (optimal cost %v)", s, e, dd[e])
				}
			}
			continue
		}
		cur := s
		walk := true
		for k, li := range chain {
			l := c.Links[li]
			switch cur {
			case l.A:
				cur = l.B
			case l.B:
				cur = l.A
			default:
				walk = false
				why = fmt.Sprintf("link %d of the route does not start at the node reached so far", k)
			}
			if !walk {
				break
			}
		}
		if !walk {
			continue
		}
		isEnd := false
		for _, e := range E {
			if e == cur {
				isEnd = true
			}
		}
		if !isEnd {
			why = fmt.Sprintf("route ends at node %d, which is not the node nearest the end point", cur)
			continue
		}
		// the search's distance-to-target estimate uses node positions, link costs use the links' own (slightly different)
		// end points: a route may exceed the optimum by the node-position tolerance per link
		if cost > dd[cur]*(1+1e-9)+1e-12+2*posTol*float64(len(chain)+1) {
			why = fmt.Sprintf("route from node %d to node %d costs %v (%d links) but a chain of cost %v exists", s, cur, cost, len(chain), dd[cur])
			continue
		}
		okAny = true
		hops := dijkstra(n, hg, s)
		if float64(len(chain)) > hops[cur] {
			v.NonTrivial = true
			v.Class("optimal_has_more_links_than_fewest")
		}
	}
	if !okAny {
		return v.Fail("%s [%d nodes, %d links, minimise time=%v]", why, n, len(c.Links), c.Time)
	}
	if n > 50 {
		v.Class("more_than_50_nodes")
	}
	return v
}

func TestProp(t *testing.T) {
	vkit.Main(t, vkit.Spec[Case]{
		ID: "C19",
		Rule: "rapid: networks of 2-120 nodes on a lattice (spacing 2, |coordinates| >=10 in a drawn quadrant, so that the relative-tolerance node identification is unambiguous; in half of the networks the link end points differ from the node coordinates by a few 1e-13 relative, i.e. they are equal within the tolerance but not bit-identical), links from a drawn AddLink " +
			"history: in two cases of three 1-3 queries are issued while the network is still being built (AddLink calls before and after them; only the final query on the complete network is judged); a random spanning tree over a drawn prefix of the nodes plus 0-2n random extra links, no self-loops or parallel links, each link a polyline whose ends differ from the node by up to 3 steps of 1e-13, 1e-11 or 3e-10 relative (the last just inside the 1e-9 identification tolerance) with 0-4 jittered " +
			"intermediate vertices given in either direction, speeds in [0.1,100]; both Distance and Time; query points near nodes or anywhere. Oracle: Dijkstra on a reference graph; the " +
			"returned pieces must be input links forming a walk from a nearest node of the start point to a nearest node of the end point, reported totals = sums over the chain, " +
			"start/endDistance = distances to those nodes, chain cost = Dijkstra optimum (1e-9), empty iff same node or disconnected. Non-trivial = the optimal chain has more links " +
			"than the fewest-links chain between the same nodes. Distinct by case hash." +
			" Round 10: 'trap' networks (1 eligible case in 8): moved 1e8 along x only, two more nodes and links so that a link end lies within tolerance of a node that is not its nearest." +
			" Round 11: one eligible case in twelve multiplies every coordinate by 2^520, 2^540, 2^600 or 2^700." +
			" Round 12: one case in 150 has 2200-3200 nodes, all linked." +
			" Round 13: one case in two issues one to six queries from the same starting point to other nodes on the complete network before the judged query (not judged themselves).",
		Assumptions: []string{"ties for the nearest node are resolved by accepting any nearest node"},
		Gen:         gen,
		Run:         run,
		NSamples:    2,
	})
}
