// C06 — GeoJSON encoding round-trips every non-empty finite geometry.
package c06

import (
	"bytes"
	"encoding/json"
	"math"
	"strconv"
	"testing"

	"github.com/ctessum/geom"
	"github.com/ctessum/geom/encoding/geojson"
	"pgregory.net/rapid"
	"verif/vkit"
)

type Case struct {
	G   vkit.GJ `json:"g"`
	Neg string  `json:"neg,omitempty"` // "" | collection | bounds | nonfinite
	// Prefix: later paths of a multi-line string or polygon that are value-prefixes of its first path are handed over
	// as re-slicings of that first path (line[:k]): two members that start at the same element and differ in length
	Prefix bool `json:"prefix,omitempty"`
}

var six = []string{"Point", "MultiPoint", "LineString", "MultiLineString", "Polygon", "MultiPolygon"}

func gen(t *rapid.T) Case {
	var c Case
	o := vkit.GeomOpts{Types: six, MinMembers: 0, MaxMembers: rapid.SampledFrom([]int{1, 2, 6}).Draw(t, "maxmem"),
		MaxPts: rapid.SampledFrom([]int{1, 2, 4, 8}).Draw(t, "maxpts"), FirstNonEmpty: true, Coord: vkit.CoordFinite()}
	switch rapid.IntRange(0, 11).Draw(t, "negsel") {
	case 0:
		c.Neg = "collection"
		o.Types = []string{"GeometryCollection"}
		o.MaxDepth = 1
	case 1:
		c.Neg = "bounds"
		o.Types = []string{"Bounds"}
	case 2:
		c.Neg = "nonfinite"
	case 3:
		if rapid.Bool().Draw(t, "nilgeom") {
			c.Neg = "nil" // the nil Geom: not one of the six types either
		}
	case 4:
		// a collection (not a GeoJSON geometry of this package) that holds a nil member, directly or one level down:
		// refused like every collection, whatever is inside
		c.Neg = rapid.SampledFrom([]string{"collection_with_nil", "collection_with_nil_nested"}).Draw(t, "nilmember")
	}
	c.G = vkit.GenGJ(t, o)
	if c.Neg == "" && (c.G.T == "MultiLineString" || c.G.T == "Polygon") && len(c.G.Rings) >= 1 && len(c.G.Rings[0]) >= 2 && rapid.IntRange(0, 5).Draw(t, "prefix") == 2 {
		// one or two more members that are the first k points of the first member
		for k, nk := 0, rapid.IntRange(1, 2).Draw(t, "prefixn"); k < nk; k++ {
			c.G.Rings = append(c.G.Rings, append([]vkit.P2{}, c.G.Rings[0][:rapid.IntRange(1, len(c.G.Rings[0])).Draw(t, "prefixk")]...))
		}
		c.Prefix = true
	}
	if c.Neg == "" && rapid.IntRange(0, 11).Draw(t, "regular") == 7 {
		// many polygons of one build (a tiled layer): 8-24 polygons with the same number of rings and shells of the same
		// number of points, the holes with point counts of their own
		np, nr, ns := rapid.IntRange(8, 24).Draw(t, "regnp"), rapid.IntRange(1, 3).Draw(t, "regnr"), rapid.IntRange(3, 6).Draw(t, "regns")
		cf := vkit.CoordFinite()
		var polys [][][]vkit.P2
		for i := 0; i < np; i++ {
			var rings [][]vkit.P2
			for j := 0; j < nr; j++ {
				n := ns
				if j > 0 {
					n = rapid.IntRange(1, 8).Draw(t, "regnh")
				}
				r := make([]vkit.P2, n)
				for k := range r {
					r[k] = vkit.MkP(cf.Draw(t, "rx"), cf.Draw(t, "ry"))
				}
				rings = append(rings, r)
			}
			polys = append(polys, rings)
		}
		c.G = vkit.GJ{T: "MultiPolygon", Polys: polys}
	}
	if c.Neg == "nonfinite" {
		bad := rapid.SampledFrom([]float64{math.NaN(), math.Inf(1), math.Inf(-1)}).Draw(t, "bad")
		poison(t, &c.G, bad)
	}
	return c
}

// poison overwrites one drawn coordinate with a non-finite value.
func poison(t *rapid.T, g *vkit.GJ, bad float64) {
	var slots []*vkit.F
	add := func(p []vkit.P2) {
		for i := range p {
			slots = append(slots, &p[i][0], &p[i][1])
		}
	}
	add(g.Pts)
	for _, r := range g.Rings {
		add(r)
	}
	for _, p := range g.Polys {
		for _, r := range p {
			add(r)
		}
	}
	*slots[rapid.IntRange(0, len(slots)-1).Draw(t, "slot")] = vkit.F(bad)
}

var depthOf = map[string]int{"Point": 1, "MultiPoint": 2, "LineString": 2, "MultiLineString": 3, "Polygon": 3, "MultiPolygon": 4}

// checkShape walks the coordinates value (decoded with UseNumber) against the reference vertex list.
func checkShape(v interface{}, depth int, want *[]vkit.P2) string {
	arr, ok := v.([]interface{})
	if !ok {
		return "coordinates: expected an array at nesting level with remaining depth " + strconv.Itoa(depth)
	}
	if depth == 1 {
		if len(arr) != 2 {
			return "a position must have exactly two numbers"
		}
		if len(*want) == 0 {
			return "more positions in the text than vertices in the geometry"
		}
		for k := 0; k < 2; k++ {
			n, ok := arr[k].(json.Number)
			if !ok {
				return "position element is not a number"
			}
			f, err := strconv.ParseFloat(string(n), 64)
			if err != nil || math.Float64bits(f) != math.Float64bits(float64((*want)[0][k])) {
				return "position value " + string(n) + " does not parse to the vertex coordinate " + strconv.FormatFloat(float64((*want)[0][k]), 'g', -1, 64)
			}
		}
		*want = (*want)[1:]
		return ""
	}
	for _, e := range arr {
		if m := checkShape(e, depth-1, want); m != "" {
			return m
		}
	}
	return ""
}

func run(c Case) (v vkit.Verdict) {
	g, sameG := vkit.SharedGeom(c.G)
	if c.Prefix && c.Neg == "" {
		g, sameG = c.G.Geom(), func() string { return "" } // (slices of its own: the members are re-sliced below)
		isPrefix := func(a, b []vkit.P2) bool {
			if len(a) == 0 || len(a) > len(b) {
				return false
			}
			for i := range a {
				// bit for bit: a member (0, -0) is not a window of a first member that starts (0, 0) - compared with ==
				// it was taken for one, handed over with the wrong zero, and the encoder blamed (thorough tier, seed 8)
				if math.Float64bits(float64(a[i][0])) != math.Float64bits(float64(b[i][0])) || math.Float64bits(float64(a[i][1])) != math.Float64bits(float64(b[i][1])) {
					return false
				}
			}
			return true
		}
		switch gg := g.(type) {
		case geom.MultiLineString:
			for j := 1; j < len(gg); j++ {
				if isPrefix(c.G.Rings[j], c.G.Rings[0]) {
					gg[j] = gg[0][:len(c.G.Rings[j])]
					v.Class("member_is_a_prefix_window_of_the_first_member")
				}
			}
		case geom.Polygon:
			for j := 1; j < len(gg); j++ {
				if isPrefix(c.G.Rings[j], c.G.Rings[0]) {
					gg[j] = gg[0][:len(c.G.Rings[j])]
					v.Class("member_is_a_prefix_window_of_the_first_member")
				}
			}
		}
	}
	defer func() {
		if m := sameG(); m != "" && !v.Bad {
			v = v.Fail("the call changed the geometry it was given (point lists are sub-slices of one array with spare capacity): %s", m)
		}
	}()

	v.Class(c.G.T)
	if c.Neg != "" {
		v.Class("negative_" + c.Neg)
		v.NonTrivial = c.Neg == "nonfinite"
		var b []byte
		var err error
		switch c.Neg {
		case "nil":
			g = nil
		case "collection_with_nil":
			g = geom.GeometryCollection{g, nil}
		case "collection_with_nil_nested":
			g = geom.GeometryCollection{g, geom.GeometryCollection{nil}}
		}
		if p := vkit.Catch(func() { b, err = geojson.Encode(g) }); p != "" {
			return v.Fail("Encode(%s) panicked: %s", c.Neg, p)
		}
		if err == nil || len(b) != 0 {
			return v.Fail("Encode of %s geometry returned %q, err=%v; want an error and no output", c.Neg, b, err)
		}
		if p := vkit.Catch(func() { _ = err.Error() }); p != "" {
			return v.Fail("the error returned by Encode(%s) cannot be printed: Error() panicked: %s", c.Neg, p)
		}
		return v
	}
	b, err := geojson.Encode(g)
	if err != nil {
		return v.Fail("Encode error: %v", err)
	}
	// the text belongs to the caller: later calls of the codec (a batch of encodings kept in a slice) must not change it
	snap := append([]byte(nil), b...)
	for _, o := range []geom.Geom{geom.LineString{{X: 7, Y: 7}, {X: 8, Y: 9.5}, {X: 1000, Y: -2}}, geom.Point{X: 7, Y: 7}} {
		if ob, err := geojson.Encode(o); err == nil {
			geojson.Decode(ob)
		}
	}
	if !bytes.Equal(b, snap) {
		return v.Fail("the text returned by Encode(g) was changed by later Encode calls: was %s, is %s", snap, b)
	}
	// independent look at the text
	dec := json.NewDecoder(bytes.NewReader(b))
	dec.UseNumber()
	var obj map[string]interface{}
	if err := dec.Decode(&obj); err != nil {
		return v.Fail("output is not a JSON object: %v: %s", err, b)
	}
	if len(obj) != 2 || obj["type"] != c.G.T {
		return v.Fail("object members/type wrong: %s", b)
	}
	want := c.G.Flatten()
	if m := checkShape(obj["coordinates"], depthOf[c.G.T], &want); m != "" {
		return v.Fail("%s: %s", m, b)
	}
	if len(want) != 0 {
		return v.Fail("%d vertices missing from the text: %s", len(want), b)
	}
	// member structure: array lengths at each level
	if m := lens(obj["coordinates"], c.G); m != "" {
		return v.Fail("%s: %s", m, b)
	}
	// round trip, both APIs
	back, err := geojson.Decode(b)
	if err != nil {
		return v.Fail("Decode(Encode(g)) error: %v on %s", err, b)
	}
	geojson.Decode([]byte(`{"type":"LineString","coordinates":[[7,7],[8,9.5],[1000,-2]]}`)) // a later Decode must not reach into back
	bj, ok := vkit.FromGeom(back)
	if !ok || !bj.Equal(c.G, true) {
		return v.Fail("Decode(Encode(g)) != g (compared bit for bit, so -0 must stay -0): %+v from %s", back, b)
	}
	gg, err := geojson.ToGeoJSON(g)
	if err != nil || gg.Type != c.G.T {
		return v.Fail("ToGeoJSON: %v %v", gg, err)
	}
	long := false
	for _, p := range c.G.Flatten() {
		for _, f := range p {
			if len(strconv.FormatFloat(math.Abs(float64(f)), 'e', -1, 64)) >= 20 {
				long = true
			}
		}
	}
	members := len(c.G.Rings) + len(c.G.Polys)
	if c.G.T == "MultiPoint" || c.G.T == "LineString" {
		members = len(c.G.Pts)
	}
	v.NonTrivial = members >= 2 || long
	if c.G.HasEmptyMember() {
		v.Class("later_member_empty")
	}
	return v
}

func lens(v interface{}, g vkit.GJ) string {
	arr, _ := v.([]interface{})
	switch g.T {
	case "MultiPoint", "LineString":
		if len(arr) != len(g.Pts) {
			return "wrong number of positions"
		}
	case "MultiLineString", "Polygon":
		if len(arr) != len(g.Rings) {
			return "wrong number of members"
		}
		for i, r := range g.Rings {
			if a, _ := arr[i].([]interface{}); len(a) != len(r) {
				return "wrong number of positions in member " + strconv.Itoa(i)
			}
		}
	case "MultiPolygon":
		if len(arr) != len(g.Polys) {
			return "wrong number of polygons"
		}
		for i, p := range g.Polys {
			a, _ := arr[i].([]interface{})
			if len(a) != len(p) {
				return "wrong number of rings in polygon " + strconv.Itoa(i)
			}
			for j, r := range p {
				if aa, _ := a[j].([]interface{}); len(aa) != len(r) {
					return "wrong number of positions in a ring"
				}
			}
		}
	}
	return ""
}

var _ geom.Geom

func TestProp(t *testing.T) {
	vkit.Main(t, vkit.Spec[Case]{
		ID: "C06",
		Rule: "rapid: geometries of the six supported types, 1-6 members with >=1 vertex in the first member (later members possibly empty), finite float64 coordinates from bit " +
			"patterns (-0, subnormals, 17-digit values, 1e+-300) and plain decimals; negative space: GeometryCollection, *Bounds, one coordinate overwritten with NaN/+-Inf. " +
			"Oracle: the text returned by Encode is unchanged by two later Encode/Decode calls on other geometries (results kept across calls, as in a batch), and the decoded value likewise; Decode(Encode(g)) same type/nesting and bit-identical coordinates (the property lists negative zero among the inputs and asks for exactly the same coordinates); text parsed independently with encoding/json+UseNumber: object with exactly type and " +
			"coordinates, RFC 7946 type name, nesting depth 1/2/2/3/3/4 with the member lengths of g, every position exactly two numbers that ParseFloat to the bits of (x,y) in order. " +
			"Non-trivial = >=2 members/positions or a coordinate needing >=16 significant digits, or a non-finite negative case. Distinct by case hash." +
			" Round 9: tiled layers (8-24 polygons with the same number of rings and shells of one size, holes of differing sizes)." +
			" Round 11: collections with a nil member (directly or one level down) among the negatives." +
			" Round 12: one multi-line string or polygon in six gets one or two more members that are the first k points of its first member, handed over as re-slicings of it.",
		Assumptions: []string{"nil and empty member slices are identified"},
		Gen:         gen,
		Run:         run,
	})
}
