// C02 — Within classifies points against polygons exactly (inside/outside/on edge).
package c02

import (
	"fmt"
	"math"
	"testing"

	"github.com/ctessum/geom"
	"pgregory.net/rapid"
	"verif/vkit"
)

type Case struct {
	Kind   string        `json:"kind"` // grid | float | recv
	Polys  [][][]vkit.P2 `json:"polys"`
	AsPoly bool          `json:"as_polygon,omitempty"` // a single polygon passed as geom.Polygon instead of MultiPolygon
	// Member k > 0 (kind recv): the receiver is member k-1 of the multi-polygon argument ITSELF (the same value, not a
	// copy): Outside exactly when one of its vertices is Outside of the whole argument by the even-odd rule
	Member int     `json:"member,omitempty"`
	Box    bool    `json:"box,omitempty"` // P is the *Bounds of Polys' first ring's first two vertices
	Pt     vkit.P2 `json:"pt"`
	// ScaleExp: every coordinate of a grid/recv case is multiplied by 2^ScaleExp before it is handed to geom (exact in
	// binary floating point), while the oracle works on the unscaled grid: classification is scale invariant
	ScaleExp int      `json:"scale_exp,omitempty"`
	Recv     *vkit.GJ `json:"recv,omitempty"`
}

func halfGrid(lim int) *rapid.Generator[float64] {
	// k/2 for |k| <= lim; zero comes with either sign (negative zero is a small integer like any other)
	return rapid.Map(rapid.IntRange(-lim, lim+1), func(k int) float64 {
		if k == lim+1 {
			return math.Copysign(0, -1)
		}
		return float64(k) / 2
	})
}

func genRing(t *rapid.T, c *rapid.Generator[float64], maxN int) []vkit.P2 {
	n := rapid.IntRange(0, maxN).Draw(t, "n")
	r := make([]vkit.P2, n)
	for i := range r {
		r[i] = vkit.MkP(c.Draw(t, "x"), c.Draw(t, "y"))
	}
	if n >= 2 && rapid.IntRange(0, 2).Draw(t, "close") == 0 {
		r = append(r, r[0])
	}
	return r
}

func genPolys(t *rapid.T, c *rapid.Generator[float64], maxN int) [][][]vkit.P2 {
	np := rapid.IntRange(1, 2).Draw(t, "npoly")
	polys := make([][][]vkit.P2, np)
	for i := range polys {
		nr := rapid.IntRange(1, 3).Draw(t, "nring")
		if rapid.IntRange(0, 9).Draw(t, "manyrings") == 4 {
			// round 13: 4 to 20 rings in one polygon (next to 8 and 16, where code that keeps per-ring data in fixed
			// blocks changes its path); the even-odd rule over all rings is the oracle whatever they are
			nr = rapid.IntRange(4, 20).Draw(t, "nringmany")
		}
		polys[i] = make([][]vkit.P2, nr)
		for j := range polys[i] {
			polys[i][j] = genRing(t, c, maxN)
		}
	}
	return polys
}

func gen(t *rapid.T) Case {
	var c Case
	c.Kind = rapid.SampledFrom([]string{"grid", "grid", "grid", "float", "recv"}).Draw(t, "kind")
	switch c.Kind {
	case "grid", "recv":
		lim := rapid.SampledFrom([]int{2, 4, 8}).Draw(t, "lim")
		hg := halfGrid(lim)
		maxN := 7
		if rapid.IntRange(0, 39).Draw(t, "longring") == 13 {
			maxN = rapid.IntRange(300, 900).Draw(t, "maxnlong") // rings of hundreds of vertices (still exact on the grid)
		}
		c.Polys = genPolys(t, hg, maxN)
		if rapid.Bool().Draw(t, "quarter") {
			q := rapid.Map(rapid.IntRange(-2*lim-1, 2*lim+2), func(k int) float64 {
				if k == 2*lim+2 {
					return math.Copysign(0, -1)
				}
				return float64(k) / 4
			})
			c.Pt = vkit.MkP(q.Draw(t, "px"), q.Draw(t, "py"))
		} else {
			c.Pt = vkit.MkP(hg.Draw(t, "px"), hg.Draw(t, "py"))
		}
		if rapid.IntRange(0, 5).Draw(t, "onedge") == 0 {
			// round 13: the query point at a lattice point in the INTERIOR of a drawn edge (closing edges included), at a
			// fraction k/n of it, n up to 64 quarter units: on the edge exactly, at fractions that are not dyadic
			// (the polygons are first stretched by a small odd factor, so that edges span 22, 23, 25 ... lattice steps and
			// not only the powers of two that a grid of +-2^k offers)
			f := float64(rapid.SampledFrom([]int{1, 3, 5, 7, 11, 13, 23, 25}).Draw(t, "onedgef"))
			for _, pg := range c.Polys {
				for _, r := range pg {
					for i := range r {
						r[i] = vkit.MkP(float64(r[i][0])*f, float64(r[i][1])*f)
					}
				}
			}
			var edges [][2]vkit.P2
			for _, pg := range c.Polys {
				for _, r := range pg {
					for i := 0; i+1 < len(r); i++ {
						edges = append(edges, [2]vkit.P2{r[i], r[i+1]})
					}
					if len(r) >= 3 {
						edges = append(edges, [2]vkit.P2{r[len(r)-1], r[0]})
					}
				}
			}
			if len(edges) > 0 {
				e := edges[rapid.IntRange(0, len(edges)-1).Draw(t, "onedgee")]
				q := func(f vkit.F) int { return int(math.Round(4 * float64(f))) }
				ax, ay := q(e[0][0]), q(e[0][1])
				dx, dy := q(e[1][0])-ax, q(e[1][1])-ay
				g, h := dx, dy
				if g < 0 {
					g = -g
				}
				if h < 0 {
					h = -h
				}
				for h != 0 {
					g, h = h, g%h
				}
				if g >= 2 {
					k := rapid.IntRange(1, g-1).Draw(t, "onedgek")
					c.Pt = vkit.MkP(float64(ax+k*(dx/g))/4, float64(ay+k*(dy/g))/4)
				}
			}
		}
		if c.Kind == "recv" {
			g := vkit.GenGJ(t, vkit.GeomOpts{Types: []string{"MultiPoint", "LineString", "MultiLineString", "Polygon"},
				MinMembers: 0, MaxMembers: 3, MaxPts: 5, Coord: hg, ExactGrid: true})
			c.Recv = &g
			if rapid.IntRange(0, 5).Draw(t, "member") == 3 {
				c.Member = rapid.IntRange(1, 4).Draw(t, "memberk")
			}
			if rapid.IntRange(0, 3).Draw(t, "longrecv") == 2 {
				// a receiver of 15 to 257 vertices - next to the multiples of 16, 32 and 64 at which code that looks at a long
				// line in strides would change its step - all of them Inside or OnEdge except (two cases in three) exactly one,
				// at a drawn index, which is Outside: Outside has to be reported for that one vertex wherever it stands
				var in, out []vkit.P2
				for x := -2 * lim; x <= 2*lim; x++ {
					for y := -2 * lim; y <= 2*lim; y++ {
						q := vkit.MkP(float64(x)/2, float64(y)/2)
						if vkit.PIP(q, c.Polys) == vkit.Outside {
							out = append(out, q)
						} else {
							in = append(in, q)
						}
					}
				}
				if len(in) > 0 && len(out) > 0 {
					n := rapid.SampledFrom([]int{16, 32, 32, 48, 64, 64, 96, 96, 128, 192, 256}).Draw(t, "longrecvn") + rapid.IntRange(-1, 1).Draw(t, "longrecvoff")
					pts := make([]vkit.P2, n)
					for i := range pts {
						pts[i] = in[rapid.IntRange(0, len(in)-1).Draw(t, "longrecvin")]
					}
					if rapid.IntRange(0, 2).Draw(t, "longrecvout") > 0 {
						k := rapid.SampledFrom([]int{0, n - 1, n / 2, 16, 32, 64}).Draw(t, "longrecvk")
						if k >= n || rapid.Bool().Draw(t, "longrecvanyk") {
							k = rapid.IntRange(0, n-1).Draw(t, "longrecvk2")
						}
						pts[k] = out[rapid.IntRange(0, len(out)-1).Draw(t, "longrecvoutp")]
					}
					switch rapid.IntRange(0, 3).Draw(t, "longrecvtype") {
					case 0:
						g = vkit.GJ{T: "LineString", Pts: pts}
					case 1:
						g = vkit.GJ{T: "MultiLineString", Rings: [][]vkit.P2{pts[:2], pts, pts[:1]}}
					case 2:
						g = vkit.GJ{T: "Polygon", Rings: [][]vkit.P2{pts[:3], pts}}
					default:
						g = vkit.GJ{T: "MultiPoint", Pts: pts}
					}
					c.Recv = &g
				}
			}
		}
	case "float":
		scale := rapid.SampledFrom([]float64{1, 1e-3, 1e6}).Draw(t, "scale")
		off := rapid.SampledFrom([]float64{0, 1000, -1e7}).Draw(t, "off")
		fc := rapid.Map(rapid.Float64Range(-1, 1), func(v float64) float64 { return v*scale + off*scale })
		c.Polys = genPolys(t, fc, 9)
		c.Pt = vkit.MkP(fc.Draw(t, "px"), fc.Draw(t, "py"))
		if rapid.IntRange(0, 3).Draw(t, "nearlyclosed") == 1 {
			// rings that are closed up to rounding only: the last vertex is the first one moved by one to three steps to the
			// neighbouring floating-point number (in y, in x or in both), as a ring that went through arithmetic has it - the
			// sliver between the two is an edge like any other
			for _, pg := range c.Polys {
				for j, r := range pg {
					if len(r) >= 3 && rapid.Bool().Draw(t, "nearlyclosedring") {
						f := r[0]
						nx, ny := float64(f[0]), float64(f[1])
						for k, n := 0, rapid.IntRange(1, 3).Draw(t, "ulps"); k < n; k++ {
							switch rapid.IntRange(0, 2).Draw(t, "ulpaxis") {
							case 0:
								ny = math.Nextafter(ny, math.Inf(1))
							case 1:
								ny = math.Nextafter(ny, math.Inf(-1))
							default:
								nx = math.Nextafter(nx, math.Inf(1))
							}
						}
						pg[j] = append(append([]vkit.P2{}, r...), vkit.MkP(nx, ny))
					}
				}
			}
		}
		if rapid.IntRange(0, 2).Draw(t, "rayvertex") == 1 {
			// the query point at exactly the height (or abscissa) of a vertex: the ray from the point runs through it
			var vs []vkit.P2
			for _, pg := range c.Polys {
				for _, r := range pg {
					vs = append(vs, r...)
				}
			}
			if len(vs) > 0 {
				q := vs[rapid.IntRange(0, len(vs)-1).Draw(t, "rayv")]
				if rapid.IntRange(0, 3).Draw(t, "rayx") == 0 {
					c.Pt = vkit.MkP(float64(q[0]), float64(c.Pt[1]))
				} else {
					c.Pt = vkit.MkP(float64(c.Pt[0]), float64(q[1]))
				}
			}
		}
	}
	if len(c.Polys) == 1 {
		c.AsPoly = rapid.Bool().Draw(t, "aspoly")
	}
	if c.Kind != "float" && rapid.IntRange(0, 3).Draw(t, "scaled") == 0 {
		c.ScaleExp = rapid.OneOf(rapid.SampledFrom([]int{-1000, -600, -530, -300, -60, 20, 60, 300, 510, 600, 1000}), rapid.IntRange(-1000, 1000)).Draw(t, "scaleexp")
	}
	if c.Kind == "grid" && len(c.Polys[0][0]) >= 2 && rapid.IntRange(0, 9).Draw(t, "box") == 0 {
		c.Box = true
	}
	return c
}

func scaleP(p vkit.P2, e int) vkit.P2 {
	return vkit.MkP(math.Ldexp(float64(p[0]), e), math.Ldexp(float64(p[1]), e))
}

func scalePolys(polys [][][]vkit.P2, e int) [][][]vkit.P2 {
	if e == 0 {
		return polys
	}
	out := make([][][]vkit.P2, len(polys))
	for i, p := range polys {
		out[i] = make([][]vkit.P2, len(p))
		for j, r := range p {
			out[i][j] = make([]vkit.P2, len(r))
			for k, q := range r {
				out[i][j][k] = scaleP(q, e)
			}
		}
	}
	return out
}

// unchanged reports whether the coordinate array shared by all rings of the polygonal still holds what it was given.
var unchanged = func() string { return "" }

func polygonal(c Case) (geom.Polygonal, [][][]vkit.P2) {
	unchanged = func() string { return "" }
	if c.Box {
		a, b := c.Polys[0][0][0], c.Polys[0][0][1]
		mn := vkit.MkP(math.Min(float64(a[0]), float64(b[0])), math.Min(float64(a[1]), float64(b[1])))
		mx := vkit.MkP(math.Max(float64(a[0]), float64(b[0])), math.Max(float64(a[1]), float64(b[1])))
		bd := &geom.Bounds{Min: scaleP(mn, c.ScaleExp).Pt(), Max: scaleP(mx, c.ScaleExp).Pt()}
		return bd, [][][]vkit.P2{{{mn, {mx[0], mn[1]}, mx, {mn[0], mx[1]}}}}
	}
	// all rings are consecutive sub-slices of one flat array with spare capacity (see vkit.SharedGeom)
	sg, same := vkit.SharedGeom(vkit.GJ{T: "MultiPolygon", Polys: scalePolys(c.Polys, c.ScaleExp)})
	mp := sg.(geom.MultiPolygon)
	unchanged = same
	if c.AsPoly && len(mp) == 1 {
		return mp[0], c.Polys
	}
	return mp, c.Polys
}

var names = []string{"Outside", "Inside", "OnEdge"}

func run(c Case) (v vkit.Verdict) {
	P, ref := polygonal(c)
	v.Class(c.Kind)
	switch c.Kind {
	case "grid", "float":
		want := vkit.PIP(c.Pt, ref)
		if c.Kind == "float" {
			// only points with a clear margin from every edge are in the quantifier
			d := vkit.MinDistToRings(c.Pt, ref)
			scale, lo, hi := 0.0, math.Inf(1), math.Inf(-1)
			for _, p := range append(vkit.GJ{T: "MultiPolygon", Polys: ref}.Flatten(), c.Pt) {
				for _, f := range p {
					scale = math.Max(scale, math.Abs(float64(f)))
					lo, hi = math.Min(lo, float64(f)), math.Max(hi, float64(f))
				}
			}
			scale = (hi-lo)*10 + scale*1e-9
			if d <= 1e-7*scale {
				v.Class("float_near_edge_skipped")
				return v
			}
		}
		got := int(scaleP(c.Pt, c.ScaleExp).Pt().Within(P))
		if m := unchanged(); m != "" {
			return v.Fail("Point.Within changed the polygon it was given (rings are sub-slices of one array): %s", m)
		}
		if c.ScaleExp != 0 {
			v.Class("scaled_by_power_of_two")
		}
		nrings := 0
		touch := want == vkit.OnEdge
		for _, poly := range ref {
			for _, r := range poly {
				if len(r) >= 3 {
					nrings++
				}
				for _, q := range r {
					if q[1] == c.Pt[1] || q[0] == c.Pt[0] {
						touch = true // ray through a vertex / on a ring's bounding line
					}
				}
			}
		}
		v.NonTrivial = touch || nrings >= 2
		v.Class("want_" + names[want])
		if got != want {
			return v.Fail("Point%v.Within = %s, exact oracle says %s", c.Pt, names[got], names[want])
		}
	case "recv":
		rs := *c.Recv
		if c.ScaleExp != 0 {
			rs.Pts = scalePolys([][][]vkit.P2{{c.Recv.Pts}}, c.ScaleExp)[0][0]
			rs.Rings = scalePolys([][][]vkit.P2{c.Recv.Rings}, c.ScaleExp)[0]
			if c.Recv.Pts == nil {
				rs.Pts = nil
			}
			if c.Recv.Rings == nil {
				rs.Rings = nil
			}
		}
		// the receiver's point lists are windows of one array too, stored out of order and with gaps (vkit.SharedGeom)
		g, recvSame := vkit.SharedGeom(rs)
		wantOutside := false
		verts := c.Recv.Flatten()
		if mp, ok := P.(geom.MultiPolygon); ok && c.Member > 0 && len(mp) > 0 {
			k := (c.Member - 1) % len(mp)
			g, recvSame = mp[k], func() string { return "" }
			verts = nil
			for _, r := range c.Polys[k] {
				verts = append(verts, r...)
			}
			v.Class("receiver_is_a_member_of_the_argument")
		}
		for _, q := range verts {
			if vkit.PIP(q, ref) == vkit.Outside {
				wantOutside = true
			}
		}
		got := g.(geom.Withiner).Within(P)
		if m := unchanged(); m != "" {
			return v.Fail("%s.Within changed the polygon it was given (rings are sub-slices of one array): %s", c.Recv.T, m)
		}
		if m := recvSame(); m != "" {
			return v.Fail("%s.Within changed its receiver (members are sub-slices of one array): %s", c.Recv.T, m)
		}
		v.NonTrivial = len(verts) >= 2
		v.Class("recv_" + c.Recv.T)
		if (got == geom.Outside) != wantOutside {
			return v.Fail("%s.Within = %s but some-vertex-outside = %v", c.Recv.T, names[got], wantOutside)
		}
	}
	return v
}

// exhaustive enumeration: every n-vertex ring over the 4x4 integer grid x every point of the 7x7 half-step grid
func enumerate(ev *vkit.Ev[Case], n int) {
	var pts []vkit.P2
	for x := 0; x < 4; x++ {
		for y := 0; y < 4; y++ {
			pts = append(pts, vkit.MkP(float64(x), float64(y)))
		}
	}
	total := 1
	for i := 0; i < n; i++ {
		total *= 16
	}
	var evals int64
	var keys []uint64
	ring := make([]vkit.P2, n)
	gring := make(geom.Path, n)
	for code := 0; code < total; code++ {
		k := code
		for i := 0; i < n; i++ {
			ring[i] = pts[k%16]
			gring[i] = ring[i].Pt()
			k /= 16
		}
		ref := [][][]vkit.P2{{ring}}
		P := geom.Polygon{gring}
		for qx := 0; qx <= 6; qx++ {
			for qy := 0; qy <= 6; qy++ {
				q := vkit.MkP(float64(qx)/2, float64(qy)/2)
				want := vkit.PIP(q, ref)
				got := int(q.Pt().Within(P))
				evals++
				if want == vkit.OnEdge || float64(int(q[1])) == float64(q[1]) {
					if len(keys) < 2000000 {
						keys = append(keys, vkit.Hash64(fmt.Sprint(n, code, qx, qy)))
					}
				}
				if got != want {
					c := Case{Kind: "grid", Polys: [][][]vkit.P2{{append([]vkit.P2(nil), ring...)}}, AsPoly: true, Pt: q}
					ev.Violate(c, fmt.Sprintf("enumerated: Point%v.Within(%v) = %s, exact oracle says %s", q, ring, names[got], names[want]),
						fmt.Sprintf("C02-enum%d.json", n))
					ev.AddEnumerated(evals, keys)
					return
				}
			}
		}
	}
	ev.AddEnumerated(evals, keys)
	ev.Count(fmt.Sprintf("enumerated_%dgons_x_49pts", n), evals)
}

func TestProp(t *testing.T) {
	vkit.Main(t, vkit.Spec[Case]{
		ID: "C02",
		Rule: "rapid: polygons/multi-polygons/boxes of 1-2 members x 1-3 rings x 0-7 (a few per cent: up to 300-900) arbitrary vertices (self-intersecting, repeated, " +
			"unclosed, degenerate allowed) on the half-integer grid |k/2|<=1,2,4 (zero with either sign) with query points on the half and quarter grid, checked against an " +
			"exact cross-product oracle; float polygons with points kept only when farther than 1e-6*extent+1e-16*magnitude from every edge; MultiPoint/LineString/" +
			"MultiLineString/Polygon receivers; plus exhaustive enumeration of all 3-vertex (quick) and 4-vertex (thorough) rings over a 4x4 integer " +
			"grid x the 7x7 half-step point grid. Non-trivial = query point on an edge/vertex, or sharing an x or y ordinate with a ring vertex " +
			"(ray through vertex / bounding-line cases), or >=2 rings of >=3 vertices; receivers with >=2 vertices. Distinct by case hash." +
			" Round 9: rings whose last vertex is one to three floating-point steps from the first ('nearly closed'); query points at exactly the height or abscissa of a vertex." +
			" Round 10: receivers built with vkit.SharedGeom (point lists out of order and with gaps in one array, checked for changes)." +
			" Round 11: one receiver in four has 15-257 vertices (16, 32, 48, 64, 96, 128, 192, 256 plus or minus one), all Inside or OnEdge except - two cases in three - one vertex at a drawn index." +
			" Round 12: in one receiver case in six the receiver is a member of the multi-polygon argument itself (same memory)." +
			" Round 13: one polygon in ten has 4 to 20 rings; one grid case in six puts the query point on a lattice point inside a drawn edge (fractions k/n of the edge, n up to 64).",
		Assumptions: []string{"coordinates k/4 with |k|<=33 make all cross products exact in float64, so the oracle is exact on the grid"},
		Gen:         gen,
		Run:         run,
		Extra: func(ev *vkit.Ev[Case], tier string) {
			enumerate(ev, 3)
			if tier == "thorough" {
				enumerate(ev, 4)
			}
		},
	})
}
