// C09 — Projected coordinates agree with proj4js and with independent reference formulas.
package c09

import (
	"bufio"
	"compress/gzip"
	"encoding/json"
	"fmt"
	"math"
	"os"
	"path/filepath"
	"strings"
	"sync"
	"testing"

	"github.com/ctessum/geom/proj"
	"pgregory.net/rapid"
	"verif/props/projkit"
	"verif/vkit"
)

type Case struct {
	Kind string      `json:"kind"` // diff (proj4js differential) | ref (reference formulas) | table
	Src  projkit.Def `json:"src"`
	Dst  projkit.Def `json:"dst"`
	X    float64     `json:"x"` // input in the source system (degrees, or projected units)
	Y    float64     `json:"y"`
	// proj4js's answer, embedded so that a case is self-contained (replay and golden vectors need no node)
	HaveJS bool        `json:"have_js,omitempty"`
	JS     *[2]float64 `json:"js,omitempty"`
	JSErr  string      `json:"js_err,omitempty"`
	// table cases
	Def    string                 `json:"def,omitempty"`
	JSProj map[string]interface{} `json:"js_proj,omitempty"`
	Lon    float64                `json:"lon,omitempty"` // the Greenwich position the input was derived from (information only)
	Lat    float64                `json:"lat,omitempty"`
	// Pre (round 13): before the judged call the same transformer is called once with a position it cannot convert -
	// 1: (NaN, y), 2: (x, NaN), 3: (x, 90), 4: (x, -90), 5: (+Inf, y); that call's own result is not judged
	Pre int `json:"pre,omitempty"`
}

func goTransform(src, dst string, x, y float64, pre int) (float64, float64, error) {
	s, err := proj.Parse(src)
	if err != nil {
		return 0, 0, fmt.Errorf("Parse(%q): %v", src, err)
	}
	d, err := proj.Parse(dst)
	if err != nil {
		return 0, 0, fmt.Errorf("Parse(%q): %v", dst, err)
	}
	tr, err := s.NewTransform(d)
	if err != nil {
		return 0, 0, err
	}
	if tr == nil {
		return x, y, nil
	}
	if pre != 0 {
		px, py := x, y
		switch pre {
		case 1:
			px = math.NaN()
		case 2:
			py = math.NaN()
		case 3:
			py = 90
		case 4:
			py = -90
		default:
			px = math.Inf(1)
		}
		vkit.Catch(func() { tr(px, py) })
	}
	ox, oy, err := tr(x, y)
	if err == nil && (math.IsNaN(ox) || math.IsNaN(oy) || math.IsInf(ox, 0) || math.IsInf(oy, 0)) {
		err = fmt.Errorf("non-finite result (%v, %v)", ox, oy)
	}
	return ox, oy, err
}

var wgs84Geo = projkit.Def{Proj: "longlat", DatumKind: "name", Datum: "WGS84"}

func gen(t *rapid.T) Case {
	var c Case
	orc, _ := projkit.GetOracle()
	kinds := []string{"ref", "ref"}
	if orc != nil {
		kinds = []string{"diff", "diff", "diff", "ref"}
	}
	c.Kind = rapid.SampledFrom(kinds).Draw(t, "kind")
	switch c.Kind {
	case "diff":
		pairing := rapid.SampledFrom([]string{"nodatum", "datum", "datum", "datum", "mirror", "nearellps"}).Draw(t, "pairing")
		if pairing == "nearellps" {
			// the WGS84 ellipsoid written with a rounded flattening (as definitions copied by hand have it) on a datum
			// without shift, against WGS84 itself: the two ellipsoids differ by a few 1e-11 to a few 1e-10 in e^2 - around
			// the threshold below which two datums count as the same - and the positions by up to a millimetre and a half
			c.Dst = projkit.GenDef(t, projkit.Opts{NoDatum: true, Projs: []string{"longlat", "merc", "lcc", "aea", "eqdc", "tmerc", "utm"}})
			d := rapid.Float64Range(2.5e-6, 2e-5).Draw(t, "drf")
			if rapid.Bool().Draw(t, "drfneg") {
				d = -d
			}
			c.Dst.EllpsKind, c.Dst.Ellps, c.Dst.A, c.Dst.Rf = "arf", "", 6378137, 298.257223563+d
			c.Dst.DatumKind, c.Dst.Datum, c.Dst.Towgs = "towgs", "", []float64{0, 0, 0}
			c.Lon, c.Lat = projkit.GenPosition(t, c.Dst)
			c.Src = wgs84Geo
			if rapid.Bool().Draw(t, "nearinverse") {
				c.Src, c.Dst = c.Dst, c.Src
			}
		} else if pairing == "mirror" {
			// two definitions that differ in the SIGN of one parameter only (false easting, false northing, or - where the
			// usable region is wide enough to hold the position for both - the central meridian): as different as any two
			// references, but equal in every magnitude
			c.Dst = projkit.GenDef(t, projkit.Opts{OnlyDatum: true, WithAxis: true, Projs: []string{"merc", "lcc", "aea", "eqdc", "tmerc"}})
			c.Lon, c.Lat = projkit.GenPosition(t, c.Dst)
			c.Src = c.Dst
			which := rapid.SampledFrom([]string{"x0", "y0", "lon0"}).Draw(t, "mirrorparam")
			if which == "lon0" && (c.Dst.Proj == "tmerc" || math.Abs(c.Dst.Lon0) > 30 || c.Dst.Lon0 == 0) {
				which = "x0"
			}
			switch which {
			case "x0":
				if c.Dst.X0 == 0 {
					c.Dst.X0 = 500000
				}
				c.Src.X0 = -c.Dst.X0
			case "y0":
				if c.Dst.Y0 == 0 {
					c.Dst.Y0 = 250000
				}
				c.Src.Y0 = -c.Dst.Y0
			case "lon0":
				c.Src.Lon0 = -c.Dst.Lon0
			}
		} else if pairing == "nodatum" {
			// a definition without datum against the geographic system on the same ellipsoid
			p := projkit.GenDef(t, projkit.Opts{NoDatum: true, Projs: []string{"merc", "lcc", "aea", "eqdc", "tmerc", "utm", "krovak"}})
			g := p.GeographicOnSameDatum()
			c.Lon, c.Lat = projkit.GenPosition(t, p)
			if rapid.Bool().Draw(t, "inverse") {
				c.Src, c.Dst = p, g
			} else {
				c.Src, c.Dst = g, p
			}
		} else {
			c.Dst = projkit.GenDef(t, projkit.Opts{OnlyDatum: true, WithAxis: true})
			c.Lon, c.Lat = projkit.GenPosition(t, c.Dst)
			c.Src = projkit.GenDefFor(t, projkit.Opts{OnlyDatum: true, WithAxis: true, Projs: projkit.AllProjs}, c.Lon, c.Lat)
		}
		// proj4js 2.3.12 does not supply PROJ's defaults for parameters a definition leaves out (a tmerc without +k comes out
		// as 1e30): it is no oracle for such texts, so the differential spells every parameter (the reference-formula cases
		// and C08/C10/C20 do rely on the defaults)
		c.Src.OmitDefaults, c.Dst.OmitDefaults = false, false
		// a +towgs84 clause written next to a named datum (of another number of terms than the name's own, or the same):
		// the name's table entry replaces the clause
		for _, d := range []*projkit.Def{&c.Src, &c.Dst} {
			if d.DatumKind == "name" && rapid.IntRange(0, 7).Draw(t, "nullgridfirst") == 3 {
				d.NullGridFirst = true // "+nadgrids=@null +datum=X": the datum that is named last counts, in proj4js and here
			}
			if d.DatumKind == "name" && rapid.IntRange(0, 3).Draw(t, "clausenexttoname") == 1 {
				n := rapid.SampledFrom([]int{3, 7}).Draw(t, "clauseterms")
				d.Towgs = make([]float64, n)
				for i := range d.Towgs {
					d.Towgs[i] = float64(rapid.IntRange(-200, 200).Draw(t, "clauseterm")) / 4
				}
			}
		}
		// the input in source coordinates is obtained from the WGS84 position with the code under test (it only has to
		// be a point of the region; both implementations then get the same numbers)
		if c.Src.Proj == "longlat" && (c.Src.Axis == "" || c.Src.Axis == "enu") {
			c.X, c.Y = c.Lon-c.Src.PMDegrees(), c.Lat
		} else {
			via := wgs84Geo
			if c.Src.DatumKind == "" {
				via = c.Src.GeographicOnSameDatum()
				via.PM = ""
			}
			x, y, err := goTransform(via.String(), c.Src.String(), c.Lon, c.Lat, 0)
			if err != nil {
				x, y = c.Src.X0, c.Src.Y0
			}
			c.X, c.Y = x, y
		}
		res, errs, err := orc.Transform(c.Src.String(), c.Dst.String(), [][2]float64{{c.X, c.Y}})
		if err != nil {
			panic(err)
		}
		c.HaveJS, c.JS, c.JSErr = true, res[0], errs[0]
	case "ref":
		c.Dst = projkit.GenDef(t, projkit.Opts{Projs: []string{"merc", "lcc", "aea", "eqdc", "tmerc", "utm"}, MaxRot: 1})
		c.Lon, c.Lat = projkit.GenPosition(t, c.Dst)
		if c.Dst.DatumKind != "" && rapid.Bool().Draw(t, "shifted") {
			c.Src = projkit.GenDef(t, projkit.Opts{Projs: []string{"longlat"}, OnlyDatum: true, MaxRot: 1})
		} else {
			c.Src = c.Dst.GeographicOnSameDatum()
		}
		seven := func(d projkit.Def) bool { p, ok := d.ToWGS84(); return ok && (p[3] != 0 || p[4] != 0 || p[5] != 0) }
		if c.Dst.Proj == "merc" && (seven(c.Src) || seven(c.Dst)) && math.Abs(c.Lat) > 70 {
			// the small-angle inverse Helmert that PROJ.4 defines is ~0.5 mm off on the ground for rotations of 2-3 arc
			// seconds; Mercator magnifies that 11x at 85 degrees, so stay where the scale factor is below 3
			c.Lat = math.Copysign(70, c.Lat)
		}
		c.X, c.Y = c.Lon-c.Src.PMDegrees(), c.Lat
	}
	if rapid.IntRange(0, 3).Draw(t, "prefirst") == 0 {
		c.Pre = rapid.IntRange(1, 5).Draw(t, "pre")
	}
	return c
}

// sameReference: the two definitions are one reference in two spellings (judged on the generated parameters alone).
func sameReference(a, b projkit.Def) bool {
	norm := func(d projkit.Def) (projkit.Def, float64, [7]float64, bool, float64, float64) {
		pm := d.PMDegrees() + 0 // -0 -> +0
		d.PM = ""
		if d.Axis == "enu" {
			d.Axis = ""
		}
		z := func(v *float64) { *v += 0 }
		z(&d.Lon0)
		z(&d.Lat0)
		z(&d.Lat1)
		z(&d.Lat2)
		z(&d.X0)
		z(&d.Y0)
		tw, ok := d.ToWGS84()
		ea, es := d.Ellipsoid()
		// datum and ellipsoid are compared by value
		d.DatumKind, d.Datum, d.Towgs, d.EllpsKind, d.Ellps, d.A, d.Rf = "", "", nil, "", "", 0, 0
		d.OmitDefaults = false
		return d, pm, tw, ok, ea, es
	}
	da, pma, ta, oka, aa, esa := norm(a)
	db, pmb, tb, okb, ab, esb := norm(b)
	if da.String() != db.String() || math.Abs(pma-pmb) > 1e-12 || oka != okb {
		return false
	}
	for i := range ta {
		if math.Abs(ta[i]-tb[i]) > 1e-12*math.Max(1, math.Abs(ta[i])) {
			return false
		}
	}
	return math.Abs(aa-ab) <= 1e-9 && math.Abs(esa-esb) <= 1e-15
}

func run(c Case) (v vkit.Verdict) {
	v.Class(c.Kind)
	if c.Pre != 0 {
		v.Class("after_a_call_that_cannot_be_converted")
	}
	switch c.Kind {
	case "table":
		return runTable(c)
	case "diff":
		if !c.HaveJS {
			v.Class("no_proj4js_answer_skipped")
			return v
		}
		v.Class("diff_" + c.Src.Proj + "_to_" + c.Dst.Proj)
		series := func(p string) bool { return p == "tmerc" || p == "utm" || p == "eqdc" }
		differ := c.Src.DatumKind != "" && (c.Src.String() != c.Dst.String()) && (c.Src.HasShift() || c.Dst.HasShift())
		v.NonTrivial = differ || series(c.Src.Proj) || series(c.Dst.Proj) || c.Src.UnitToMeter() != 1 || c.Dst.UnitToMeter() != 1
		if differ {
			v.Class("datum_shift")
		}
		// the same reference spelled differently (+axis=enu written out, +pm=-0 against +pm=0, a prime meridian by name
		// against its value, a named datum against its own parameters): decided here, from the generated parameters, NOT by
		// asking the library's Equal - a library that calls two different references equal is exactly what this case is
		// there to notice
		sameRef := sameReference(c.Src, c.Dst)
		if sameRef {
			// Equal references: Go short-circuits to the identity (exact), proj4js goes to WGS84 and back with the
			// small-angle inverse Helmert (off by ~0.1 mm for 7-parameter datums); nothing to compare
			v.Class("identical_definitions_skipped")
			v.NonTrivial = false
			return v
		}
		if sphereTMercFalseOrigin(c.Src) || sphereTMercFalseOrigin(c.Dst) {
			// proj4js 2.3.12 ignores x_0/y_0 in the spherical branch of tmerc (both directions), which contradicts the
			// reference formulas this same property requires; it is not an oracle there (the ref cases cover it).
			v.Class("proj4js_not_an_oracle_sphere_tmerc_false_origin_skipped")
			v.NonTrivial = false
			return v
		}
		if (sphereTMerc(c.Src) || sphereTMerc(c.Dst)) && math.Abs(c.Lat) < 0.02 {
			// proj4js's spherical tmerc loses ~1e-8 rad (centimetres) within ~1e-4 deg of the equator (acos / sqrt(1-cos^2)
			// cancellation), again contradicting the reference formulas; not an oracle in that sliver
			v.Class("proj4js_not_an_oracle_sphere_tmerc_equator_skipped")
			v.NonTrivial = false
			return v
		}
		var gx, gy float64
		var gerr error
		if p := vkit.Catch(func() { gx, gy, gerr = goTransform(c.Src.String(), c.Dst.String(), c.X, c.Y, c.Pre) }); p != "" {
			return v.Fail("panic: %s [%s -> %s]", p, c.Src, c.Dst)
		}
		if (gerr != nil) != (c.JS == nil) {
			if gerr != nil {
				return v.Fail("Go reports %q but proj4js returns (%v, %v) for (%v, %v) [%s -> %s]", gerr, c.JS[0], c.JS[1], c.X, c.Y, c.Src, c.Dst)
			}
			return v.Fail("Go returns (%v, %v) but proj4js reports %q for (%v, %v) [%s -> %s]", gx, gy, c.JSErr, c.X, c.Y, c.Src, c.Dst)
		}
		if gerr != nil {
			v.Class("both_error")
			return v
		}
		tol := 1e-4 / c.Dst.UnitToMeter()
		if c.Dst.Proj == "longlat" {
			tol = 1e-9
		}
		dx, dy := math.Abs(gx-c.JS[0]), math.Abs(gy-c.JS[1])
		if c.Dst.Proj == "longlat" {
			// 0.1 mm on the ground: a longitude difference counts with cos(lat)
			dx = math.Abs(math.Mod(gx-c.JS[0]+540, 360)-180) * math.Max(math.Cos(gy*math.Pi/180), 1e-3)
		}
		if !(dx <= tol) || !(dy <= tol) { // NaN-safe
			return v.Fail("Go (%.6f, %.6f) vs proj4js (%.6f, %.6f): differ by (%.3g, %.3g) > %.3g for input (%v, %v) [%s -> %s]", gx, gy, c.JS[0], c.JS[1], dx, dy, tol, c.X, c.Y, c.Src, c.Dst)
		}
	case "ref":
		v.Class("ref_" + c.Dst.Proj)
		shifted := c.Src.String() != c.Dst.GeographicOnSameDatum().String()
		v.NonTrivial = true
		if shifted {
			v.Class("ref_with_helmert_chain")
		}
		var gx, gy float64
		var gerr error
		if p := vkit.Catch(func() { gx, gy, gerr = goTransform(c.Src.String(), c.Dst.String(), c.X, c.Y, c.Pre) }); p != "" {
			return v.Fail("panic: %s [%s -> %s]", p, c.Src, c.Dst)
		}
		if gerr != nil {
			return v.Fail("error %v for (%v, %v) inside the usable region [%s -> %s]", gerr, c.X, c.Y, c.Src, c.Dst)
		}
		// reference chain: Greenwich longitude -> datum shift -> longitude relative to dst's prime meridian -> projection
		lon, lat := (c.X+c.Src.PMDegrees())*math.Pi/180, c.Y*math.Pi/180
		lon, lat = projkit.RefDatumShift(c.Src, c.Dst, lon, lat)
		lon -= c.Dst.PMDegrees() * math.Pi / 180
		rx, ry, ok := projkit.RefForward(c.Dst, lon, lat)
		if !ok {
			return v
		}
		u := c.Dst.UnitToMeter()
		rx, ry = rx/u, ry/u
		tol := 0.005 / u
		if c.Dst.K0 > 1 {
			tol *= c.Dst.K0 // 5 mm on the ground: the scale factor multiplies every ground error
		}
		if vkit.Off(gx-rx, tol) || vkit.Off(gy-ry, tol) {
			return v.Fail("Go (%.5f, %.5f) vs reference formulas (%.5f, %.5f): differ by (%.3g, %.3g) > %.3g units for (%v, %v) [%s -> %s]", gx, gy, rx, ry, math.Abs(gx-rx), math.Abs(gy-ry), tol, c.X, c.Y, c.Src, c.Dst)
		}
	}
	return v
}

// eccentricSeries recognises known finding `eccentric_ellipsoid_series`: reference-formula cases of the series projections
// (tmerc, utm, eqdc) on an ellipsoid with e^2 > 0.009 - among the built-in ones only mprts (Maupertius 1738, rf=191).
func eccentricSeries(c Case) bool {
	if c.Kind != "ref" || (c.Dst.Proj != "tmerc" && c.Dst.Proj != "utm" && c.Dst.Proj != "eqdc") {
		return false
	}
	_, es := c.Dst.Ellipsoid()
	return es > 0.009
}

func sphereTMerc(d projkit.Def) bool {
	if d.Proj != "tmerc" && d.Proj != "utm" {
		return false
	}
	_, es := d.Ellipsoid()
	return es <= 1e-16
}

func sphereTMercFalseOrigin(d projkit.Def) bool {
	return sphereTMerc(d) && (d.Proj == "utm" || d.X0 != 0 || d.Y0 != 0)
}

func num(v interface{}) (float64, bool) {
	switch x := v.(type) {
	case float64:
		return x, true
	case string:
		if x == "NaN" {
			return math.NaN(), true
		}
	}
	return 0, false
}

func ulpEq(a, b float64) bool {
	if a == b || (math.IsNaN(a) && math.IsNaN(b)) {
		return true
	}
	return math.Abs(a-b) <= 2*math.Abs(math.Nextafter(a, math.Inf(1))-a)
}

// runTable compares the exported SR fields after proj.Parse(c.Def) with proj4js's Proj object for the same text.
func runTable(c Case) (v vkit.Verdict) {
	v.NonTrivial = true
	sr, err := proj.Parse(c.Def)
	if err != nil {
		return v.Fail("Parse(%q): %v", c.Def, err)
	}
	chk := func(name string, got float64, key string) string {
		w, ok := num(c.JSProj[key])
		if !ok {
			if math.IsNaN(got) {
				return ""
			}
			// proj4js leaves the field undefined
			if key == "rf" || key == "from_greenwich" {
				return ""
			}
			return fmt.Sprintf("%s = %v but proj4js has no %s", name, got, key)
		}
		if key == "from_greenwich" && math.IsNaN(w) && got == 0 {
			// proj4js quirk: PrimeMeridian.greenwich is 0, which its parser treats as "not found" and turns into NaN;
			// a NaN offset is then skipped by its transform, i.e. it means 0
			return ""
		}
		if !ulpEq(got, w) {
			return fmt.Sprintf("%s = %.17g, proj4js %s = %.17g", name, got, key, w)
		}
		return ""
	}
	for _, m := range []string{chk("A", sr.A, "a"), chk("B", sr.B, "b"), chk("Es", sr.Es, "es"), chk("Rf", sr.Rf, "rf"), chk("ToMeter", sr.ToMeter, "to_meter"),
		chk("FromGreenwich", sr.FromGreenwich, "from_greenwich")} {
		if m != "" {
			if strings.HasPrefix(m, "ToMeter") && c.JSProj["to_meter"] == nil && sr.ToMeter == 1 {
				continue
			}
			return v.Fail("%s after Parse(%q)", m, c.Def)
		}
	}
	if dp, ok := c.JSProj["datum_params_converted"].([]interface{}); ok {
		if len(sr.DatumParams) != len(dp) {
			return v.Fail("DatumParams has %d terms, proj4js %d, after Parse(%q)", len(sr.DatumParams), len(dp), c.Def)
		}
		for i := range dp {
			w, _ := num(dp[i])
			if !ulpEq(sr.DatumParams[i], w) {
				return v.Fail("DatumParams[%d] = %.17g, proj4js %.17g after Parse(%q)", i, sr.DatumParams[i], w, c.Def)
			}
		}
	} else if len(sr.DatumParams) != 0 {
		return v.Fail("DatumParams = %v but proj4js has none after Parse(%q)", sr.DatumParams, c.Def)
	}
	return v
}

// tableDefs enumerates every built-in ellipsoid, datum, prime meridian and unit name of proj4js.
func tableDefs() []string {
	var out []string
	for _, n := range projkit.EllipsoidNames {
		out = append(out, "+proj=longlat +ellps="+n, "+proj=tmerc +lat_0=0 +lon_0=9 +k=1 +x_0=0 +y_0=0 +ellps="+n)
	}
	for n := range projkit.T.Datums {
		out = append(out, "+proj=longlat +datum="+n)
	}
	for _, n := range projkit.PMNames {
		out = append(out, "+proj=longlat +ellps=WGS84 +pm="+n)
	}
	for _, n := range append([]string{"m"}, projkit.UnitNames...) {
		out = append(out, "+proj=tmerc +lat_0=0 +lon_0=0 +k=1 +x_0=0 +y_0=0 +ellps=WGS84 +units="+n)
	}
	return out
}

var goldenMu sync.Mutex
var goldenOut *os.File

func goldenPath() string {
	return filepath.Join(vkit.VerifDir(), "ref", "golden", "c09_cases.ndjson.gz")
}

func extra(ev *vkit.Ev[Case], tier string) {
	// self-validation of the reference formulas: TM along the central meridian equals the quadrature meridian arc
	worst := 0.0
	for _, n := range projkit.EllipsoidNames {
		d := projkit.Def{Proj: "tmerc", EllpsKind: "name", Ellps: n, K0: 1}
		a, es := d.Ellipsoid()
		for lat := -88.0; lat <= 88; lat += 4 {
			_, y, _ := projkit.RefForward(d, 0, lat*math.Pi/180)
			worst = math.Max(worst, math.Abs(y-projkit.MeridianArc(a, es, lat*math.Pi/180)))
		}
	}
	ev.Notes["max_ref_tm_vs_quadrature_arc_m"] = worst
	if worst > 1e-5 {
		ev.Violate(Case{Kind: "ref"}, fmt.Sprintf("reference self-check failed: Krueger series vs quadrature arc differ by %g m", worst), "C09-selfcheck.json")
		return
	}
	// tables: exhaustive over proj4js's own constant names
	orc, oerr := projkit.GetOracle()
	var tcases []Case
	if orc != nil {
		for _, def := range tableDefs() {
			p, err := orc.Parse(def)
			if err != nil {
				ev.Violate(Case{Kind: "table", Def: def}, "proj4js cannot parse "+def+": "+err.Error(), "C09-table.json")
				return
			}
			tcases = append(tcases, Case{Kind: "table", Def: def, JSProj: p})
		}
		ev.Notes["proj4js"] = "live (node)"
	} else {
		ev.Notes["proj4js"] = "golden vectors only: " + fmt.Sprint(oerr)
	}
	// golden vectors: generated earlier with the live oracle, replayed on every run
	if f, err := os.Open(goldenPath()); err == nil {
		defer f.Close()
		zr, err := gzip.NewReader(f)
		if err == nil {
			sc := bufio.NewScanner(zr)
			sc.Buffer(make([]byte, 1<<20), 1<<24)
			n := 0
			for sc.Scan() {
				var c Case
				if json.Unmarshal(sc.Bytes(), &c) != nil {
					continue
				}
				if c.Kind == "table" && orc != nil {
					continue // live table cases are used instead
				}
				n++
				if c.Kind == "table" {
					tcases = append(tcases, c)
					continue
				}
				vd := vkit.SafeRun(run, c)
				ev.Record(c, vd)
				if vd.Bad {
					ev.Violate(c, "golden vector: "+vd.Msg, "C09-golden.json")
					return
				}
			}
			ev.Count("golden_vectors_replayed", int64(n))
		}
	}
	for _, c := range tcases {
		vd := vkit.SafeRun(run, c)
		ev.Record(c, vd)
		if vd.Bad {
			ev.Violate(c, vd.Msg, "C09-table.json")
			return
		}
	}
	ev.Count("table_definitions", int64(len(tcases)))
}

func TestProp(t *testing.T) {
	s := vkit.Spec[Case]{
		ID: "C09",
		Rule: "rapid: (diff) source and destination definitions from the C08 generator - geographic<->projected and projected<->projected, named datums and +towgs84 with 3 or 7 terms " +
			"(shifts up to 800 m, 5 arcsec, 25 ppm), m/ft/us-ft/+to_meter, prime meridians; definitions without datum are paired only with the geographic system on the same ellipsoid; " +
			"positions in the intersection of both usable regions; Go's result must agree with proj4js 2.3.12 (live node child answering each case, answer embedded in the case; " +
			"plus committed golden vectors) within 0.1 mm (1e-9 deg), an error on one side only is a disagreement. (ref) forward projections from a geographic system (on the " +
			"destination's datum, or on another datum through a shift with explicit rotations <=1 arcsec; 5 mm is taken on the ground, i.e. multiplied by k_0 when k_0>1, and Mercator cases with a 7-parameter datum stay below 70 deg) against Snyder closed forms (merc, lcc, aea), quadrature-arc equidistant conic, " +
			"Karney-Krueger order-6 transverse Mercator/UTM and a single exact Helmert chain, within 5 mm. (table) every proj4js ellipsoid, datum, prime-meridian and unit name: " +
			"exported A, B, Rf, Es, DatumParams, FromGreenwich, ToMeter equal proj4js's values (2 ulp) - exhaustive. Non-trivial = datums differ with a shift, or a series projection " +
			"(tmerc/utm/eqdc), or a non-metre unit; all ref and table cases. Distinct by case hash." +
			" Round 9: shift-free pairs on nearly identical ellipsoids (e^2 a few 1e-11 to 1e-10 apart)." +
			" Round 11: one named datum in eight is written after '+nadgrids=@null'." +
			" Round 13: a quarter of the cases call the transformer once before the judged call with a position it cannot convert (NaN, +Inf, latitude +-90); that call is not judged.",
		Assumptions: []string{"proj4js 2.3.12 as vendored in the repository is the oracle where the property makes it one", "V8 and Go libm differ by ulps, far below 0.1 mm",
			"if node is unavailable the differential part replays the committed golden vectors only (stated in notes.proj4js)"},
		Gen:   gen,
		Run:   run,
		Extra: extra,
		Known: map[string]func(Case) bool{"eccentric_ellipsoid_series": eccentricSeries},
	}
	if out := os.Getenv("VERIF_GOLDEN_OUT"); out != "" {
		f, err := os.Create(out)
		if err != nil {
			t.Fatal(err)
		}
		defer f.Close()
		goldenOut = f
		inner := s.Run
		s.Run = func(c Case) vkit.Verdict {
			vd := inner(c)
			if !vd.Bad {
				b, _ := json.Marshal(c)
				goldenMu.Lock()
				goldenOut.Write(append(b, '\n'))
				goldenMu.Unlock()
			}
			return vd
		}
		s.Extra = func(ev *vkit.Ev[Case], tier string) {
			orc, _ := projkit.GetOracle()
			if orc == nil {
				t.Fatal("golden generation needs node")
			}
			for _, def := range tableDefs() {
				p, err := orc.Parse(def)
				if err != nil {
					t.Fatal(err)
				}
				b, _ := json.Marshal(Case{Kind: "table", Def: def, JSProj: p})
				goldenOut.Write(append(b, '\n'))
			}
		}
	}
	vkit.Main(t, s)
}
