// C17 — WKT output is well-formed OGC text that parses back to the same geometry.
package c17

import (
	"bytes"
	"fmt"
	"math"
	"strconv"
	"strings"
	"testing"

	"github.com/ctessum/geom"
	"github.com/ctessum/geom/encoding/wkt"
	"pgregory.net/rapid"
	"verif/vkit"
)

type Case struct {
	G   vkit.GJ `json:"g"`
	Neg bool    `json:"neg,omitempty"`
	Nil bool    `json:"nil,omitempty"` // negative case with the nil Geom
	// Ptr (negative cases): the value handed over is a pointer to a geometry - *geom.Point, *geom.LineString,
	// *geom.Polygon are geometry types of their own (value-receiver methods), and none of the five; 1-3: non-nil, 4-6: nil
	Ptr int `json:"ptr,omitempty"`
	// Junk (round 13): before the call that is judged, Encode is called with a value outside the property's domain - a
	// line, multi-line, polygon or multi-polygon with a NaN or infinite coordinate (1-4), or a type it has to refuse (5);
	// whatever those calls return is not judged, but they must not change what the next call does
	Junk int `json:"junk,omitempty"`
}

var five = []string{"Point", "LineString", "MultiLineString", "Polygon", "MultiPolygon"}

func gen(t *rapid.T) Case {
	var c Case
	o := vkit.GeomOpts{Types: five, MinMembers: 1, MaxMembers: rapid.SampledFrom([]int{1, 2, 6}).Draw(t, "maxmem"), MinPts: 1,
		MaxPts: rapid.SampledFrom([]int{1, 2, 4, 8}).Draw(t, "maxpts"), Coord: vkit.CoordFinite()}
	if rapid.IntRange(0, 14).Draw(t, "neg") == 0 {
		c.Neg = true
		o.Types = []string{"MultiPoint", "GeometryCollection", "Bounds"}
		o.MaxDepth = 1
		c.Nil = rapid.IntRange(0, 3).Draw(t, "nilgeom") == 2
		if !c.Nil && rapid.IntRange(0, 3).Draw(t, "ptrgeom") == 1 {
			c.Ptr = rapid.IntRange(1, 6).Draw(t, "ptrkind")
		}
	}
	c.G = vkit.GenGJ(t, o)
	if rapid.IntRange(0, 2).Draw(t, "junkfirst") == 0 {
		c.Junk = rapid.IntRange(1, 5).Draw(t, "junk")
	}
	return c
}

// ---- independent recursive-descent parser of the OGC WKT geometry grammar (2-D, the five types) ----

type parser struct {
	s   string
	pos int
}

func (p *parser) ws() {
	for p.pos < len(p.s) && (p.s[p.pos] == ' ' || p.s[p.pos] == '\t' || p.s[p.pos] == '\n') {
		p.pos++
	}
}
func (p *parser) expect(ch byte) error {
	p.ws()
	if p.pos >= len(p.s) || p.s[p.pos] != ch {
		return fmt.Errorf("expected %q at offset %d", ch, p.pos)
	}
	p.pos++
	return nil
}
func (p *parser) peek() byte {
	p.ws()
	if p.pos >= len(p.s) {
		return 0
	}
	return p.s[p.pos]
}

// number: [sign] digits [. digits] [(e|E) [sign] digits]  |  [sign] . digits ...
func (p *parser) number() (float64, error) {
	p.ws()
	st := p.pos
	if p.pos < len(p.s) && (p.s[p.pos] == '-' || p.s[p.pos] == '+') {
		p.pos++
	}
	digits := 0
	for p.pos < len(p.s) && p.s[p.pos] >= '0' && p.s[p.pos] <= '9' {
		p.pos++
		digits++
	}
	if p.pos < len(p.s) && p.s[p.pos] == '.' {
		p.pos++
		for p.pos < len(p.s) && p.s[p.pos] >= '0' && p.s[p.pos] <= '9' {
			p.pos++
			digits++
		}
	}
	if digits == 0 {
		return 0, fmt.Errorf("expected a number at offset %d", st)
	}
	if p.pos < len(p.s) && (p.s[p.pos] == 'e' || p.s[p.pos] == 'E') {
		p.pos++
		if p.pos < len(p.s) && (p.s[p.pos] == '-' || p.s[p.pos] == '+') {
			p.pos++
		}
		ed := 0
		for p.pos < len(p.s) && p.s[p.pos] >= '0' && p.s[p.pos] <= '9' {
			p.pos++
			ed++
		}
		if ed == 0 {
			return 0, fmt.Errorf("malformed exponent at offset %d", p.pos)
		}
	}
	return strconv.ParseFloat(p.s[st:p.pos], 64)
}

func (p *parser) point() (vkit.P2, error) {
	x, err := p.number()
	if err != nil {
		return vkit.P2{}, err
	}
	if p.pos >= len(p.s) || p.s[p.pos] != ' ' {
		return vkit.P2{}, fmt.Errorf("expected a blank between x and y at offset %d", p.pos)
	}
	y, err := p.number()
	if err != nil {
		return vkit.P2{}, err
	}
	return vkit.MkP(x, y), nil
}

// pointList: '(' point {',' point} ')'
func (p *parser) pointList() ([]vkit.P2, error) {
	if err := p.expect('('); err != nil {
		return nil, err
	}
	var out []vkit.P2
	for {
		q, err := p.point()
		if err != nil {
			return nil, err
		}
		out = append(out, q)
		if p.peek() == ',' {
			p.pos++
			continue
		}
		break
	}
	return out, p.expect(')')
}

// listOf: '(' item {',' item} ')'
func listOf[T any](p *parser, item func() (T, error)) ([]T, error) {
	if err := p.expect('('); err != nil {
		return nil, err
	}
	var out []T
	for {
		q, err := item()
		if err != nil {
			return nil, err
		}
		out = append(out, q)
		if p.peek() == ',' {
			p.pos++
			continue
		}
		break
	}
	return out, p.expect(')')
}

func parseWKT(s string) (vkit.GJ, error) {
	p := &parser{s: s}
	p.ws()
	st := p.pos
	for p.pos < len(p.s) && ((p.s[p.pos] >= 'A' && p.s[p.pos] <= 'Z') || (p.s[p.pos] >= 'a' && p.s[p.pos] <= 'z')) {
		p.pos++
	}
	kw := strings.ToUpper(p.s[st:p.pos])
	var g vkit.GJ
	var err error
	switch kw {
	case "POINT":
		g.T = "Point"
		if err = p.expect('('); err == nil {
			var q vkit.P2
			if q, err = p.point(); err == nil {
				g.Pts = []vkit.P2{q}
				err = p.expect(')')
			}
		}
	case "LINESTRING":
		g.T = "LineString"
		g.Pts, err = p.pointList()
	case "POLYGON":
		g.T = "Polygon"
		g.Rings, err = listOf(p, p.pointList)
	case "MULTILINESTRING":
		g.T = "MultiLineString"
		g.Rings, err = listOf(p, p.pointList)
	case "MULTIPOLYGON":
		g.T = "MultiPolygon"
		g.Polys, err = listOf(p, func() ([][]vkit.P2, error) { return listOf(p, p.pointList) })
	default:
		return g, fmt.Errorf("unknown geometry keyword %q", kw)
	}
	if err != nil {
		return g, err
	}
	p.ws()
	if p.pos != len(p.s) {
		return g, fmt.Errorf("trailing text at offset %d", p.pos)
	}
	return g, nil
}

func run(c Case) (v vkit.Verdict) {
	g, sameG := vkit.SharedGeom(c.G)
	defer func() {
		if m := sameG(); m != "" && !v.Bad {
			v = v.Fail("the call changed the geometry it was given (point lists are sub-slices of one array with spare capacity): %s", m)
		}
	}()

	v.Class(c.G.T)
	if c.Junk != 0 {
		v.Class("after_a_call_outside_the_domain")
		nan, inf := math.NaN(), math.Inf(1)
		var j geom.Geom
		switch c.Junk {
		case 1:
			j = geom.LineString{{X: 1, Y: 2}, {X: nan, Y: 4}}
		case 2:
			j = geom.MultiLineString{{{X: 1, Y: 2}, {X: 3, Y: inf}}}
		case 3:
			j = geom.Polygon{{{X: 0, Y: 0}, {X: 1, Y: -inf}, {X: 0, Y: 1}}}
		case 4:
			j = geom.MultiPolygon{{{{X: 0, Y: 0}, {X: 1, Y: 0}, {X: nan, Y: nan}}}}
		default:
			j = geom.MultiPoint{{X: 1, Y: 2}}
		}
		vkit.Catch(func() { wkt.Encode(j) })
	}
	if c.Neg {
		v.Class("negative")
		var b []byte
		var err error
		if c.Nil {
			g = nil
			v.Class("negative_nil")
		}
		if c.Ptr != 0 {
			v.Class("negative_pointer_to_a_geometry")
			pt, ls, pg := geom.Point{X: 1, Y: 2}, geom.LineString{{X: 1, Y: 2}, {X: 3, Y: 4}}, geom.Polygon{{{X: 0, Y: 0}, {X: 1, Y: 0}, {X: 0, Y: 1}}}
			switch c.Ptr {
			case 1:
				g = &pt
			case 2:
				g = &ls
			case 3:
				g = &pg
			case 4:
				g = (*geom.Point)(nil)
			case 5:
				g = (*geom.LineString)(nil)
			default:
				g = (*geom.Polygon)(nil)
			}
		}
		if p := vkit.Catch(func() { b, err = wkt.Encode(g) }); p != "" {
			return v.Fail("Encode(%s) panicked: %s", c.G.T, p)
		}
		if err == nil || b != nil {
			return v.Fail("Encode(%s) = %q, %v; want an error", c.G.T, b, err)
		}
		if p := vkit.Catch(func() { _ = err.Error() }); p != "" {
			return v.Fail("the error returned by Encode (nil geometry: %v) cannot be printed: Error() panicked: %s", c.Nil, p)
		}
		return v
	}
	b, err := wkt.Encode(g)
	if err != nil {
		return v.Fail("Encode error: %v", err)
	}
	// the text belongs to the caller: later Encode calls must not change it
	snap := append([]byte(nil), b...)
	wkt.Encode(geom.LineString{{X: 7, Y: 7}, {X: 8, Y: 9.5}, {X: 1000, Y: -2}})
	wkt.Encode(geom.Point{X: 7, Y: 7})
	if !bytes.Equal(b, snap) {
		return v.Fail("the text returned by Encode(g) was changed by later Encode calls: was %s, is %s", snap, b)
	}
	back, err := parseWKT(string(b))
	if err != nil {
		return v.Fail("output is not well-formed WKT: %v: %s", err, b)
	}
	if !back.Equal(c.G, true) { // bit for bit: a zero keeps its sign
		return v.Fail("WKT parses to a different geometry (coordinates compared bit for bit): %s -> %+v", b, back)
	}
	v.NonTrivial = len(c.G.Rings) >= 2 || len(c.G.Polys) >= 2 || (c.G.T == "MultiPolygon" && len(c.G.Polys[0]) >= 2)
	for _, p := range c.G.Flatten() {
		for _, f := range p {
			if a := math.Abs(float64(f)); a != 0 && (a >= 1e21 || a < 1e-4) {
				v.Class("exponent_notation")
				return v
			}
		}
	}
	return v
}

func TestProp(t *testing.T) {
	vkit.Main(t, vkit.Spec[Case]{
		ID: "C17",
		Rule: "rapid: Point/LineString/MultiLineString/Polygon/MultiPolygon with 1-6 members and 1-8 vertices per member, finite float64 coordinates from bit patterns " +
			"(exponent notation, 17 digits, -0, subnormals) and decimals; negative: MultiPoint, GeometryCollection, *Bounds must be rejected with an error. Oracle: an " +
			"independent recursive-descent parser of the OGC WKT grammar (keyword, balanced parentheses, comma-separated 'x y' pairs, numeric literal syntax checked " +
			"before strconv.ParseFloat) must accept the text and yield the same type, nesting and float64 values (==). Non-trivial = multi-geometry with >=2 members or " +
			"polygon with >=2 rings. Distinct by case hash." +
			" Round 12: a quarter of the negative cases hand over a pointer to a geometry (*Point, *LineString, *Polygon; nil or not)." +
			" Round 13: a third of the cases are preceded by an Encode call outside the domain (a non-finite coordinate in each of the four non-point types, or a refused type), whose own result is not judged.",
		Assumptions: []string{"lower-case 'e' exponents are accepted as OGC approximate numeric literals"},
		Gen:         gen,
		Run:         run,
	})
}
