// C05 — WKB and hex encoding are lossless and byte-exact to the OGC layout.
package c05

import (
	"bufio"
	"bytes"
	"encoding/binary"
	"encoding/hex"
	"io"
	"math"
	"strings"
	"testing"
	"testing/iotest"

	"github.com/ctessum/geom"
	ghex "github.com/ctessum/geom/encoding/hex"
	"github.com/ctessum/geom/encoding/wkb"
	"pgregory.net/rapid"
	"verif/vkit"
)

type Case struct {
	G         vkit.GJ `json:"g"`
	BigEndian bool    `json:"big_endian"`
	Orders    []bool  `json:"orders"` // per-element byte-order choices for the reference writer (true = XDR), cycled
	Neg       string  `json:"neg,omitempty"`
	// Huge n > 0: G is replaced (at run time, so that the case stays a few bytes) by one point array of n points -
	// 65 000 to 300 000, around the sizes at which a reader that grows its chunks would change its step - as a line string
	// (HugeWrap 0), the second ring of a polygon (1), or a member of a collection (2)
	Huge     int `json:"huge,omitempty"`
	HugeWrap int `json:"huge_wrap,omitempty"`
	// Nest n > 0: G is wrapped (at run time) in n nested collections, 2000 to 20000 - "nested to any depth"
	Nest int `json:"nest,omitempty"`
}

func hugeG(n, wrap int) vkit.GJ {
	pts := make([]vkit.P2, n)
	for i := range pts {
		pts[i] = vkit.MkP(float64(i)+0.125*float64(i%7), -0.25*float64(i))
	}
	switch wrap {
	case 1:
		return vkit.GJ{T: "Polygon", Rings: [][]vkit.P2{pts[:4], pts}}
	case 2:
		return vkit.GJ{T: "GeometryCollection", Geoms: []vkit.GJ{{T: "Point", Pts: pts[:1]}, {T: "MultiLineString", Rings: [][]vkit.P2{pts[:2], pts}}}}
	}
	return vkit.GJ{T: "LineString", Pts: pts}
}

func gen(t *rapid.T) Case {
	var c Case
	if rapid.IntRange(0, 39).Draw(t, "negsel") == 0 {
		c.Neg = rapid.SampledFrom([]string{"bounds", "nil", "boundsInCollection"}).Draw(t, "neg")
	}
	o := vkit.GeomOpts{MaxDepth: rapid.IntRange(0, 4).Draw(t, "depth"), MinMembers: 0,
		MaxMembers: rapid.SampledFrom([]int{1, 2, 3, 6}).Draw(t, "maxmem"), MaxPts: rapid.SampledFrom([]int{1, 2, 3, 8}).Draw(t, "maxpts"),
		Coord: vkit.CoordAnyBits()}
	c.G = vkit.GenGJ(t, o)
	if c.Neg == "" && rapid.IntRange(0, 39).Draw(t, "deep") == 17 {
		// inside 15 to 66 nested collections
		c.G = vkit.WrapDeep(c.G, rapid.SampledFrom([]int{16, 16, 32, 64}).Draw(t, "deepn")+rapid.IntRange(-1, 2).Draw(t, "deepoff"), rapid.Uint64().Draw(t, "deeppat"))
	}
	if c.Neg == "" && rapid.IntRange(0, 299).Draw(t, "nest") == 123 {
		c.Nest = rapid.SampledFrom([]int{2000, 9999, 10001, 12000, 20000}).Draw(t, "nestn")
	}
	if c.Neg == "" && rapid.IntRange(0, 149).Draw(t, "huge") == 77 {
		c.Huge = rapid.OneOf(rapid.IntRange(65530, 65545), rapid.IntRange(130040, 130060), rapid.IntRange(131065, 131080), rapid.IntRange(140000, 300000)).Draw(t, "hugen")
		c.HugeWrap = rapid.IntRange(0, 2).Draw(t, "hugewrap")
	}
	if c.Neg == "" && rapid.IntRange(0, 39).Draw(t, "long") == 0 {
		// point arrays longer than one internal read block (the decoder reads long arrays in chunks): lengths around
		// multiples of 1024 and a few arbitrary long ones, alone or inside multi-geometries / collections
		n := rapid.OneOf(rapid.IntRange(1020, 1030), rapid.IntRange(2040, 2056), rapid.IntRange(3000, 3100), rapid.IntRange(500, 5000)).Draw(t, "longn")
		x0, y0 := vkit.CoordAnyBits().Draw(t, "lx"), rapid.Float64Range(-1e6, 1e6).Draw(t, "ly")
		pts := make([]vkit.P2, n)
		for i := range pts {
			pts[i] = vkit.MkP(float64(i)*0.25+y0, y0-float64(i))
		}
		pts[0] = vkit.MkP(x0, y0)
		long := vkit.GJ{T: "LineString", Pts: pts}
		switch rapid.IntRange(0, 4).Draw(t, "longwrap") {
		case 1:
			long = vkit.GJ{T: "Polygon", Rings: [][]vkit.P2{{pts[0], pts[1], pts[2]}, pts, {}}}
		case 2:
			long = vkit.GJ{T: "MultiLineString", Rings: [][]vkit.P2{pts[:3], pts, pts[:1025%n]}}
		case 3:
			long = vkit.GJ{T: "MultiPolygon", Polys: [][][]vkit.P2{{pts}, {pts[:4], pts}}}
		case 4:
			long = vkit.GJ{T: "MultiPoint", Pts: pts}
		}
		if c.G.T == "GeometryCollection" {
			c.G.Geoms = append(c.G.Geoms, long, vkit.GJ{T: "Point", Pts: []vkit.P2{vkit.MkP(1, 2)}})
		} else {
			c.G = long
		}
	}
	if c.Neg == "" && rapid.IntRange(0, 99).Draw(t, "wide") == 77 {
		// wide containers: thousands of members (also just around 10000) in a collection or a multi-geometry, optionally
		// with a small nested collection as the last member
		n := rapid.OneOf(rapid.IntRange(9990, 10010), rapid.IntRange(1500, 12000), rapid.IntRange(1020, 1030)).Draw(t, "widen")
		pt := func(i int) vkit.GJ { return vkit.GJ{T: "Point", Pts: []vkit.P2{vkit.MkP(float64(i), -0.5*float64(i))}} }
		switch rapid.IntRange(0, 7).Draw(t, "widekind") {
		case 4:
			// round 13: thousands of members that are EMPTY - polygons without rings (nine bytes each), polygons of one
			// empty ring, empty lines, empty collections: the encoded members are as short as members can be
			w := vkit.GJ{T: "MultiPolygon"}
			one := rapid.Bool().Draw(t, "wideonering")
			for i := 0; i < n; i++ {
				if one && i%3 == 0 {
					w.Polys = append(w.Polys, [][]vkit.P2{{}})
				} else {
					w.Polys = append(w.Polys, [][]vkit.P2{})
				}
			}
			c.G = w
		case 5:
			w := vkit.GJ{T: "MultiLineString"}
			for i := 0; i < n; i++ {
				w.Rings = append(w.Rings, []vkit.P2{})
			}
			c.G = w
		case 6:
			w := vkit.GJ{T: "GeometryCollection"}
			kinds := []vkit.GJ{{T: "GeometryCollection"}, {T: "MultiPoint"}, {T: "LineString"}, {T: "Polygon"}, {T: "MultiPolygon"}, {T: "MultiLineString"}}
			k := rapid.IntRange(0, len(kinds)).Draw(t, "wideemptykind")
			for i := 0; i < n; i++ {
				if k == len(kinds) {
					w.Geoms = append(w.Geoms, kinds[i%len(kinds)])
				} else {
					w.Geoms = append(w.Geoms, kinds[k])
				}
			}
			c.G = w
		case 7:
			w := vkit.GJ{T: "Polygon"}
			for i := 0; i < n; i++ {
				w.Rings = append(w.Rings, []vkit.P2{})
			}
			c.G = w
		case 0, 1:
			w := vkit.GJ{T: "GeometryCollection"}
			for i := 0; i < n; i++ {
				w.Geoms = append(w.Geoms, pt(i))
			}
			if rapid.Bool().Draw(t, "widetail") {
				w.Geoms = append(w.Geoms, vkit.GJ{T: "GeometryCollection", Geoms: []vkit.GJ{{T: "GeometryCollection", Geoms: []vkit.GJ{pt(-1)}}, {T: "MultiPoint", Pts: []vkit.P2{vkit.MkP(3, 4)}}}})
			}
			c.G = w
		case 2:
			w := vkit.GJ{T: "MultiLineString"}
			for i := 0; i < n; i++ {
				w.Rings = append(w.Rings, []vkit.P2{vkit.MkP(float64(i), 1), vkit.MkP(float64(i), 2)})
			}
			c.G = w
		default:
			w := vkit.GJ{T: "MultiPolygon"}
			for i := 0; i < n; i++ {
				w.Polys = append(w.Polys, [][]vkit.P2{{vkit.MkP(float64(i), 0), vkit.MkP(float64(i)+0.5, 1), vkit.MkP(float64(i), 1)}})
			}
			c.G = w
		}
	}
	c.BigEndian = rapid.Bool().Draw(t, "be")
	c.Orders = rapid.SliceOfN(rapid.Bool(), 1, 12).Draw(t, "orders")
	return c
}

func hasSpecial(g vkit.GJ) bool {
	for _, p := range g.Flatten() {
		for _, v := range p {
			f := float64(v)
			if math.IsNaN(f) || math.IsInf(f, 0) || (f == 0 && math.Signbit(f)) || (f != 0 && math.Abs(f) < 2.3e-308) {
				return true
			}
		}
	}
	return false
}

func run(c Case) (v vkit.Verdict) {
	if c.Huge > 0 && c.Neg == "" {
		c.G = hugeG(c.Huge, c.HugeWrap)
		v.Class("array_of_65000_to_300000_points")
	}
	if c.Nest > 0 && c.Neg == "" && c.Huge == 0 {
		c.G = vkit.WrapDeep(c.G, c.Nest, 0)
		v.Class("nested_thousands_deep")
	}
	var bo binary.ByteOrder = binary.LittleEndian
	if c.BigEndian {
		bo = binary.BigEndian
	}
	if c.Neg != "" {
		var g geom.Geom
		switch c.Neg {
		case "bounds":
			g = &geom.Bounds{Min: geom.Point{X: 0, Y: 0}, Max: geom.Point{X: 1, Y: 1}}
		case "boundsInCollection":
			g = geom.GeometryCollection{c.G.Geom(), geom.NewBounds()}
		}
		v.Class("negative")
		v.NonTrivial = c.Neg == "boundsInCollection"
		b, err := wkb.Encode(g, bo)
		if err == nil || b != nil {
			return v.Fail("Encode(%s) returned %d bytes, err=%v; want an error and no output", c.Neg, len(b), err)
		}
		s, err := ghex.Encode(g, bo)
		if err == nil || s != "" {
			return v.Fail("hex.Encode(%s) returned %q, err=%v; want an error", c.Neg, s, err)
		}
		return v
	}
	g, sameG := vkit.SharedGeom(c.G)
	defer func() {
		if m := sameG(); m != "" && !v.Bad {
			v = v.Fail("the call changed the geometry it was given (point lists are sub-slices of one array with spare capacity): %s", m)
		}
	}()

	mixed := false
	nel := vkit.WKBElements(c.G)
	for i := 0; i < nel; i++ {
		if o := c.Orders[i%len(c.Orders)]; o != c.Orders[0] {
			mixed = true
		}
	}
	v.Class(c.G.T)
	depth := c.G.Depth()
	v.NonTrivial = depth >= 2 || c.G.HasEmptyMember() || hasSpecial(c.G) || mixed
	if depth >= 2 {
		v.Class("depth>=2")
	}
	if c.G.HasEmptyMember() {
		v.Class("empty_member")
	}
	if mixed {
		v.Class("mixed_orders")
	}
	if c.G.NumVertices() > 1024 {
		v.Class("array_longer_than_1024")
		v.NonTrivial = true
	}

	// (2) byte-exact against the independent writer
	got, err := wkb.Encode(g, bo)
	if err != nil {
		return v.Fail("Encode error: %v", err)
	}
	want := vkit.RefWKB(c.G, []bool{c.BigEndian})
	if !bytes.Equal(got, want) {
		return v.Fail("Encode bytes differ from OGC layout:\n got  %x\n want %x", got, want)
	}
	// (1) round trip; results are kept across two later calls of the codec on another geometry (as in a batch)
	snap := append([]byte(nil), got...)
	back, err := wkb.Decode(got)
	if err != nil {
		return v.Fail("Decode(Encode(g)) error: %v", err)
	}
	if ob, err := wkb.Encode(geom.LineString{{X: 7, Y: 7}, {X: 8, Y: 9.5}, {X: 1000, Y: -2}}, wkb.XDR); err == nil {
		wkb.Decode(ob)
	}
	if ob, err := wkb.Encode(geom.Point{X: 7, Y: 7}, wkb.NDR); err == nil {
		wkb.Decode(ob)
	}
	if !bytes.Equal(got, snap) {
		return v.Fail("the bytes returned by Encode(g) were changed by later Encode/Decode calls")
	}
	bj, ok := vkit.FromGeom(back)
	if !ok || !bj.Equal(c.G, true) {
		return v.Fail("Decode(Encode(g)) != g: got %+v", back)
	}
	// (3) mixed byte orders at every nesting level
	mixedBytes := vkit.RefWKB(c.G, c.Orders)
	back2, err := wkb.Decode(mixedBytes)
	if err != nil {
		return v.Fail("Decode of mixed-order encoding %x: error %v", mixedBytes, err)
	}
	bj2, ok := vkit.FromGeom(back2)
	if !ok || !bj2.Equal(c.G, true) {
		return v.Fail("Decode of mixed-order encoding %x != g: got %+v", mixedBytes, back2)
	}
	// wkb.Write / wkb.Read stream API, with trailing bytes left unread
	var buf bytes.Buffer
	if err := wkb.Write(&buf, bo, g); err != nil {
		return v.Fail("Write error: %v", err)
	}
	if !bytes.Equal(buf.Bytes(), want) {
		return v.Fail("Write bytes differ from Encode bytes")
	}
	buf.WriteString("tail")
	back3, err := wkb.Read(&buf)
	if err != nil {
		return v.Fail("Read error: %v", err)
	}
	if bj3, ok := vkit.FromGeom(back3); !ok || !bj3.Equal(c.G, true) {
		return v.Fail("Read(Write(g)) != g")
	}
	if buf.String() != "tail" {
		return v.Fail("Read consumed %q beyond the encoding", buf.String())
	}
	// the same bytes through readers that hand the data over in pieces (a reader may return fewer bytes than asked for:
	// pipes, sockets, decompressors do), both byte orders
	for _, enc := range [][]byte{want, mixedBytes} {
		for name, rd := range map[string]io.Reader{
			"one byte at a time":                  iotest.OneByteReader(bytes.NewReader(enc)),
			"half of what is asked for":           iotest.HalfReader(bytes.NewReader(enc)),
			"data and EOF together at the end":    iotest.DataErrReader(bytes.NewReader(enc)),
			"a 16-byte buffered reader of halves": bufio.NewReaderSize(iotest.HalfReader(bytes.NewReader(enc)), 16),
		} {
			back4, err := wkb.Read(rd)
			if err != nil {
				return v.Fail("Read from a reader that delivers %s: error %v", name, err)
			}
			if bj4, ok := vkit.FromGeom(back4); !ok || !bj4.Equal(c.G, true) {
				return v.Fail("Read from a reader that delivers %s != g: got %+v", name, back4)
			}
		}
	}
	// (4) hex
	hs, err := ghex.Encode(g, bo)
	if err != nil {
		return v.Fail("hex.Encode error: %v", err)
	}
	if hs != hex.EncodeToString(want) || hs != strings.ToLower(hs) {
		return v.Fail("hex.Encode = %q, want lower-case hex of %x", hs, want)
	}
	for _, s := range []string{hs, strings.ToUpper(hs), hex.EncodeToString(mixedBytes)} {
		hb, err := ghex.Decode(s)
		if err != nil {
			return v.Fail("hex.Decode(%q) error: %v", s, err)
		}
		if hj, ok := vkit.FromGeom(hb); !ok || !hj.Equal(c.G, true) {
			return v.Fail("hex.Decode(%q) != g", s)
		}
	}
	return v
}

func TestProp(t *testing.T) {
	vkit.Main(t, vkit.Spec[Case]{
		ID: "C05",
		Rule: "rapid-generated geometries of the seven encodable types (collections nested to depth<=4, member counts 0-6, " +
			"coordinates from arbitrary 64-bit patterns; 2.5% of the cases carry a point array of 500-5000 points with lengths concentrated around multiples of 1024, the decoder's read block; under 1% are wide containers - a collection, multi-line-string or multi-polygon of 1000-12000 members, concentrated around 10000, optionally ending in a small nested collection) x encoder byte order x per-element byte-order list for an independent " +
			"OGC WKB writer; non-trivial = nesting depth>=2, or an empty member, or a NaN/Inf/-0/subnormal coordinate, or mixed " +
			"per-element byte orders; distinct = distinct FNV-64 hash of the case JSON" +
			" Round 10: one case in 150 is a single point array of 65 530 to 300 000 points (around 65 536, 130 048, 131 072 and up to 300 000) as a line string, a polygon ring or inside a collection." +
			" Round 12: one case in 300 is wrapped in 2000, 9999, 10001, 12000 or 20000 nested collections." +
			" Round 13: wide containers (1 in 100) also of thousands of EMPTY members: ringless polygons, polygons of one empty ring, empty lines, empty collections and multi-geometries, a polygon of thousands of empty rings.",
		Assumptions: []string{"the reference serializer in props/c05 follows the OGC simple-features WKB layout", "nil and empty slices are identified"},
		Gen:         gen,
		Run:         run,
	})
}
