//go:build verif

package c18

import (
	"fmt"
	"sort"
	"strings"

	"github.com/ctessum/geom"
	gosm "github.com/ctessum/geom/encoding/osm"
	"github.com/paulmach/osm"
)

// ---- document as pure data ----

type Tag [2]string

type DNode struct {
	ID   int64   `json:"id"`
	Lat  float64 `json:"lat"`
	Lon  float64 `json:"lon"`
	Tags []Tag   `json:"tags,omitempty"`
}
type DWay struct {
	ID   int64   `json:"id"`
	Refs []int64 `json:"refs"`
	Tags []Tag   `json:"tags,omitempty"`
}
type DMember struct {
	Type string `json:"type"` // node | way | relation
	Ref  int64  `json:"ref"`
}
type DRel struct {
	ID      int64     `json:"id"`
	Members []DMember `json:"members"`
	Tags    []Tag     `json:"tags,omitempty"`
}

// Elem points at one element of the document: kind n/w/r and index.
type Elem struct {
	Kind string `json:"k"`
	Idx  int    `json:"i"`
}

type Doc struct {
	Nodes []DNode `json:"nodes"`
	Ways  []DWay  `json:"ways"`
	Rels  []DRel  `json:"rels"`
	Order []Elem  `json:"order"` // element order in the file
	// Extras: top-level elements other than node/way/relation that OSM XML files carry (Elem kind "x"): bounds (written
	// first by most exporters), note, user, changeset
	Extras []string `json:"extras,omitempty"`
}

var extraXML = map[string]string{
	"bounds":    " <bounds minlat=\"0\" minlon=\"0\" maxlat=\"6\" maxlon=\"6\"/>\n",
	"note":      " <note lon=\"1.5\" lat=\"2.5\">\n  <id>5</id>\n  <status>open</status>\n </note>\n",
	"user":      " <user id=\"7\" display_name=\"someone\" account_created=\"2010-01-01T00:00:00Z\"/>\n",
	"changeset": " <changeset id=\"3\" created_at=\"2020-01-01T00:00:00Z\" closed_at=\"2020-01-01T01:00:00Z\" open=\"false\" user=\"someone\" uid=\"7\"/>\n",
}

// HasExtra reports whether the document carries an element of the given kind in its element order.
func (d Doc) HasExtra(kind string) bool {
	for _, e := range d.Order {
		if e.Kind == "x" && e.Idx < len(d.Extras) && d.Extras[e.Idx] == kind {
			return true
		}
	}
	return false
}

type Keep struct {
	Kind   string              `json:"kind"` // tags | bounds | all
	Tags   map[string][]string `json:"tags,omitempty"`
	Bounds [4]float64          `json:"bounds,omitempty"` // minLon, minLat, maxLon, maxLat
}

func (k Keep) Func() gosm.KeepFunc {
	switch k.Kind {
	case "tags":
		return gosm.KeepTags(k.Tags)
	case "bounds":
		return gosm.KeepBounds(&geom.Bounds{Min: geom.Point{X: k.Bounds[0], Y: k.Bounds[1]}, Max: geom.Point{X: k.Bounds[2], Y: k.Bounds[3]}})
	}
	return gosm.KeepAll()
}

func xmlEsc(s string) string {
	return strings.NewReplacer("&", "&amp;", "<", "&lt;", ">", "&gt;", "\"", "&quot;").Replace(s)
}

func writeTags(sb *strings.Builder, tags []Tag) {
	for _, t := range tags {
		fmt.Fprintf(sb, "  <tag k=\"%s\" v=\"%s\"/>\n", xmlEsc(t[0]), xmlEsc(t[1]))
	}
}

// XML renders the document as OSM XML in the given element order.
func (d Doc) XML() string {
	var sb strings.Builder
	sb.WriteString("<?xml version=\"1.0\" encoding=\"UTF-8\"?>\n<osm version=\"0.6\" generator=\"verif\">\n")
	for _, e := range d.Order {
		switch e.Kind {
		case "n":
			n := d.Nodes[e.Idx]
			fmt.Fprintf(&sb, " <node id=\"%d\" lat=\"%v\" lon=\"%v\" version=\"1\">\n", n.ID, n.Lat, n.Lon)
			writeTags(&sb, n.Tags)
			sb.WriteString(" </node>\n")
		case "w":
			w := d.Ways[e.Idx]
			fmt.Fprintf(&sb, " <way id=\"%d\" version=\"1\">\n", w.ID)
			for _, r := range w.Refs {
				fmt.Fprintf(&sb, "  <nd ref=\"%d\"/>\n", r)
			}
			writeTags(&sb, w.Tags)
			sb.WriteString(" </way>\n")
		case "r":
			r := d.Rels[e.Idx]
			fmt.Fprintf(&sb, " <relation id=\"%d\" version=\"1\">\n", r.ID)
			for _, m := range r.Members {
				fmt.Fprintf(&sb, "  <member type=\"%s\" ref=\"%d\" role=\"\"/>\n", m.Type, m.Ref)
			}
			writeTags(&sb, r.Tags)
			sb.WriteString(" </relation>\n")
		case "x":
			if e.Idx < len(d.Extras) {
				sb.WriteString(extraXML[d.Extras[e.Idx]])
			}
		}
	}
	sb.WriteString("</osm>\n")
	return sb.String()
}

// ---- sequential reference model: least fixed point ----

type Sel struct {
	N map[int64]bool
	W map[int64]bool
	R map[int64]bool
}

func hasTagRef(tags []Tag, want map[string][]string) bool {
	for _, t := range tags {
		vals, ok := want[t[0]]
		if !ok {
			continue
		}
		if len(vals) == 0 {
			return true
		}
		for _, v := range vals {
			if v == t[1] {
				return true
			}
		}
	}
	return false
}

// Model computes the least set containing everything keep selects (judged against the set itself) and
// everything those objects reference that exists in the document, by naive iteration to the fixed point.
func Model(d Doc, k Keep) (Sel, bool) {
	s := Sel{map[int64]bool{}, map[int64]bool{}, map[int64]bool{}}
	nodeByID := map[int64]DNode{}
	wayByID := map[int64]DWay{}
	relByID := map[int64]DRel{}
	for _, n := range d.Nodes {
		nodeByID[n.ID] = n
	}
	for _, w := range d.Ways {
		wayByID[w.ID] = w
	}
	for _, r := range d.Rels {
		relByID[r.ID] = r
	}
	dangling := false
	for _, w := range d.Ways {
		for _, r := range w.Refs {
			if _, ok := nodeByID[r]; !ok {
				dangling = true
			}
		}
	}
	for _, r := range d.Rels {
		for _, m := range r.Members {
			ok := false
			switch m.Type {
			case "node":
				_, ok = nodeByID[m.Ref]
			case "way":
				_, ok = wayByID[m.Ref]
			case "relation":
				_, ok = relByID[m.Ref]
			}
			if !ok {
				dangling = true
			}
		}
	}
	inB := func(n DNode) bool {
		b := k.Bounds
		if b[2] < b[0] || b[3] < b[1] {
			return false
		}
		return b[0] <= n.Lon && n.Lon <= b[2] && b[1] <= n.Lat && n.Lat <= b[3]
	}
	for changed := true; changed; {
		changed = false
		add := func(m map[int64]bool, id int64) {
			if !m[id] {
				m[id] = true
				changed = true
			}
		}
		for _, n := range d.Nodes {
			sel := false
			switch k.Kind {
			case "tags":
				sel = hasTagRef(n.Tags, k.Tags)
			case "bounds":
				sel = inB(n)
			default:
				sel = true
			}
			if sel {
				add(s.N, n.ID)
			}
		}
		for _, w := range d.Ways {
			sel := false
			switch k.Kind {
			case "tags":
				sel = hasTagRef(w.Tags, k.Tags)
			case "bounds":
				for _, r := range w.Refs {
					if s.N[r] {
						sel = true
					}
				}
			default:
				sel = true
			}
			if sel {
				add(s.W, w.ID)
			}
			if s.W[w.ID] {
				for _, r := range w.Refs {
					if _, ok := nodeByID[r]; ok {
						add(s.N, r)
					}
				}
			}
		}
		for _, r := range d.Rels {
			sel := false
			switch k.Kind {
			case "tags":
				sel = hasTagRef(r.Tags, k.Tags)
			case "bounds":
				for _, m := range r.Members {
					switch m.Type {
					case "node":
						sel = sel || s.N[m.Ref]
					case "way":
						sel = sel || s.W[m.Ref]
					case "relation":
						sel = sel || s.R[m.Ref]
					}
				}
			default:
				sel = true
			}
			if sel {
				add(s.R, r.ID)
			}
			if s.R[r.ID] {
				for _, m := range r.Members {
					switch m.Type {
					case "node":
						if _, ok := nodeByID[m.Ref]; ok {
							add(s.N, m.Ref)
						}
					case "way":
						if _, ok := wayByID[m.Ref]; ok {
							add(s.W, m.Ref)
						}
					case "relation":
						if _, ok := relByID[m.Ref]; ok {
							add(s.R, m.Ref)
						}
					}
				}
			}
		}
	}
	return s, dangling
}

func ids(m map[int64]bool) []int64 {
	var out []int64
	for k, v := range m {
		if v {
			out = append(out, k)
		}
	}
	sort.Slice(out, func(i, j int) bool { return out[i] < out[j] })
	return out
}

func tagsEq(got osm.Tags, want []Tag, keepTags bool) bool {
	if !keepTags {
		return len(got) == 0
	}
	if len(got) != len(want) {
		return false
	}
	for i := range want {
		if got[i].Key != want[i][0] || got[i].Value != want[i][1] {
			return false
		}
	}
	return true
}

// Compare checks an extraction result against the model: id sets and payloads.
func Compare(d Doc, want Sel, got *gosm.Data, keepTags bool) string {
	if got == nil {
		return "nil result"
	}
	var gn, gw, gr []int64
	for id := range got.Nodes {
		gn = append(gn, int64(id))
	}
	for id := range got.Ways {
		gw = append(gw, int64(id))
	}
	for id := range got.Relations {
		gr = append(gr, int64(id))
	}
	sort.Slice(gn, func(i, j int) bool { return gn[i] < gn[j] })
	sort.Slice(gw, func(i, j int) bool { return gw[i] < gw[j] })
	sort.Slice(gr, func(i, j int) bool { return gr[i] < gr[j] })
	if a, b := fmt.Sprint(gn), fmt.Sprint(ids(want.N)); a != b {
		return fmt.Sprintf("nodes %s, least closed set has %s", a, b)
	}
	if a, b := fmt.Sprint(gw), fmt.Sprint(ids(want.W)); a != b {
		return fmt.Sprintf("ways %s, least closed set has %s", a, b)
	}
	if a, b := fmt.Sprint(gr), fmt.Sprint(ids(want.R)); a != b {
		return fmt.Sprintf("relations %s, least closed set has %s", a, b)
	}
	for _, n := range d.Nodes {
		if g, ok := got.Nodes[osm.NodeID(n.ID)]; ok {
			if g == nil || int64(g.ID) != n.ID || g.Lat != n.Lat || g.Lon != n.Lon || !tagsEq(g.Tags, n.Tags, keepTags) {
				return fmt.Sprintf("node %d payload %+v differs from the document's %+v", n.ID, g, n)
			}
		}
	}
	for _, w := range d.Ways {
		if g, ok := got.Ways[osm.WayID(w.ID)]; ok {
			if g == nil || int64(g.ID) != w.ID || len(g.Nodes) != len(w.Refs) || !tagsEq(g.Tags, w.Tags, keepTags) {
				return fmt.Sprintf("way %d payload %+v differs from the document's %+v", w.ID, g, w)
			}
			for i := range w.Refs {
				if int64(g.Nodes[i]) != w.Refs[i] {
					return fmt.Sprintf("way %d node list %v differs from %v", w.ID, g.Nodes, w.Refs)
				}
			}
		}
	}
	for _, r := range d.Rels {
		if g, ok := got.Relations[osm.RelationID(r.ID)]; ok {
			if g == nil || int64(g.ID) != r.ID || len(g.Members) != len(r.Members) || !tagsEq(g.Tags, r.Tags, keepTags) {
				return fmt.Sprintf("relation %d payload %+v differs from the document's %+v", r.ID, g, r)
			}
			for i, m := range r.Members {
				if g.Members[i].Ref != m.Ref || string(g.Members[i].Type) != m.Type {
					return fmt.Sprintf("relation %d members %v differ from %v", r.ID, g.Members, r.Members)
				}
			}
		}
	}
	return ""
}
