//go:build verif

package c18

import (
	"fmt"
	"sort"
	"strings"
	"time"

	gosm "github.com/ctessum/geom/encoding/osm"
	"github.com/paulmach/osm"
)

// The owned scheduler: every worker of extract's pool and its reading loop park at the verif hook points (and at a
// two points around the keep function: between "read has/need" and "evaluate keep", and between the answer and
// "store + register dependencies");
// only the entity the controller releases runs. The controller tracks channel occupancy and idle workers, so it
// knows exactly how many park events follow each release (no timers decide anything).

const pointKeep = 100     // before the keep function is evaluated
const pointKeepDone = 101 // after it has returned, before the worker acts on the answer

type park struct {
	point int
	obj   interface{}
	grant chan struct{}
}

type controller struct {
	events  chan *park
	nprocs  int
	choices []int
	k       int
	policy  string // base order of the enabled entities: {feeder,workers}_first_{fifo,lifo}
	seq     map[interface{}]int
	nseq    int
	// model of the pool
	chanLen int
	idle    int
	active  int
	closed  bool
	parked  []*park
	steps   int
	reorder int // releases that let a later object overtake an earlier one (for the non-triviality rule)
	passes  int
}

func (c *controller) hook(point int, obj osm.Object) {
	p := &park{point: point, obj: obj, grant: make(chan struct{})}
	c.events <- p
	<-p.grant
}

func (c *controller) wrapKeep(inner gosm.KeepFunc) gosm.KeepFunc {
	return func(d *gosm.Data, obj interface{}) bool {
		p := &park{point: pointKeep, obj: obj, grant: make(chan struct{})}
		c.events <- p
		<-p.grant
		ans := inner(d, obj)
		// a second yield point: what the worker does with the answer (store, register dependencies, count) happens
		// after other workers may have run
		p2 := &park{point: pointKeepDone, obj: obj, grant: make(chan struct{})}
		c.events <- p2
		<-p2.grant
		return ans
	}
}

func objKey(o interface{}) (int, int64) {
	switch v := o.(type) {
	case *osm.Node:
		return 0, int64(v.ID)
	case *osm.Way:
		return 1, int64(v.ID)
	case *osm.Relation:
		return 2, int64(v.ID)
	}
	return 3, 0
}

func isFeeder(p *park) bool { return p.point == gosm.VerifFeed || p.point == gosm.VerifClose }

// waitEvents receives n park events (or reports that the extraction finished / got stuck).
func (c *controller) waitEvents(n int, done <-chan struct{}) (finished bool, err error) {
	for i := 0; i < n; i++ {
		select {
		case p := <-c.events:
			if p.point == gosm.VerifFeed {
				if c.seq == nil {
					c.seq = map[interface{}]int{}
				}
				c.nseq++
				c.seq[p.obj] = c.nseq
			}
			c.parked = append(c.parked, p)
		case <-done:
			return true, nil
		// (20 s were not enough on a machine running three other campaigns: thorough tier, seed 8, reported a case that
		// replays fine - the limit is there to end a run that is stuck, and has to be far beyond any slowness)
		case <-time.After(600 * time.Second):
			return false, fmt.Errorf("no progress for 600 s under the owned schedule after %d steps (deadlock in extract, or the scheduler's model of the pool is out of sync)", c.steps)
		}
	}
	return false, nil
}

// run drives one extraction to completion.
func (c *controller) run(done <-chan struct{}) error {
	c.idle = c.nprocs
	// the reading loop reaches its first hook
	if fin, err := c.waitEvents(1, done); err != nil || fin {
		return err
	}
	c.passes = 1
	for {
		// enabled entities in canonical order
		var en []*park
		for _, p := range c.parked {
			if p.point == gosm.VerifFeed && c.idle == 0 && c.chanLen >= c.nprocs {
				continue // the send would block: not enabled
			}
			en = append(en, p)
		}
		if len(en) == 0 {
			return fmt.Errorf("no enabled entity although extract has not returned (parked %d)", len(c.parked))
		}
		base := strings.TrimSuffix(c.policy, "_answers_wait")
		feederFirst := base == "" || base == "feeder_first_fifo" || base == "feeder_first_lifo"
		lifo := base == "feeder_first_lifo" || base == "workers_first_lifo"
		answersWait := strings.HasSuffix(c.policy, "_answers_wait")
		sort.SliceStable(en, func(i, j int) bool {
			if answersWait {
				// a worker that holds an answer of the keep function waits as long as anything else can run: the answer is
				// as old as it can get before it is acted on
				if wi, wj := en[i].point == pointKeepDone, en[j].point == pointKeepDone; wi != wj {
					return wj
				}
			}
			fi, fj := isFeeder(en[i]), isFeeder(en[j])
			if fi != fj {
				return fi == feederFirst
			}
			si, sj := c.seq[en[i].obj], c.seq[en[j].obj]
			if si != sj {
				if lifo {
					return si > sj // the most recently fed object first: older ones starve
				}
				return si < sj
			}
			return en[i].point < en[j].point
		})
		idx := 0
		if c.k < len(c.choices) {
			idx = c.choices[c.k] % len(en)
			if idx < 0 {
				idx = -idx
			}
		}
		c.k++
		pick := en[idx]
		if idx > 0 || lifo {
			c.reorder++
		}
		for i, p := range c.parked {
			if p == pick {
				c.parked = append(c.parked[:i], c.parked[i+1:]...)
				break
			}
		}
		c.steps++
		expect := 0
		maybeEnd := false
		switch pick.point {
		case gosm.VerifFeed:
			if c.idle > 0 {
				c.idle--
				c.active++
				expect = 2 // the reading loop's next hook and the receiving worker's hook
			} else {
				c.chanLen++
				expect = 1
			}
		case gosm.VerifClose:
			c.closed = true
			c.idle = 0
			if c.active == 0 {
				maybeEnd = true // the reading loop passes eg.Wait at once
			}
		case gosm.VerifWorkerRecv, pointKeep, pointKeepDone:
			expect = 1
		case gosm.VerifWorkerDone:
			switch {
			case c.chanLen > 0:
				c.chanLen--
				expect = 1
			case !c.closed:
				c.idle++
				c.active--
			default:
				c.active--
				if c.active == 0 {
					maybeEnd = true
				}
			}
		}
		close(pick.grant)
		if maybeEnd {
			// either the next pass starts (one event from the reading loop) or extract returns
			fin, err := c.waitEvents(1, done)
			if err != nil {
				return err
			}
			if fin {
				if len(c.parked) != 0 {
					return fmt.Errorf("extract returned while %d entities are still parked", len(c.parked))
				}
				return nil
			}
			c.closed, c.idle, c.chanLen, c.active = false, c.nprocs, 0, 0
			c.passes++
			continue
		}
		if fin, err := c.waitEvents(expect, done); err != nil {
			return err
		} else if fin {
			return fmt.Errorf("extract returned in the middle of a pass")
		}
	}
}
