//go:build verif

// C18 — OSM extraction is referentially closed and independent of goroutine scheduling.
package c18

import (
	"bytes"
	"context"
	"fmt"
	"os"
	"regexp"
	"runtime"
	"strings"
	"sync"
	"testing"
	"time"

	gosm "github.com/ctessum/geom/encoding/osm"
	"pgregory.net/rapid"
	"verif/vkit"
)

type Case struct {
	Doc      Doc  `json:"doc"`
	Keep     Keep `json:"keep"`
	KeepTags bool `json:"keep_tags"`
	// ReadFirst: the state of the reader when it is handed over. 0: at the start; 1: read to the end before (as after
	// CountTags or a checksum pass over the same reader); 2: a third of the way in
	ReadFirst int    `json:"read_first,omitempty"`
	IDKind    string `json:"id_kind,omitempty"` // ids mapped to negative or huge values (documentation of the generator's choice)
	Engine    string `json:"engine"`            // sched (owned scheduler) | plain (no hook, repeated) | filter
	Procs     int    `json:"procs"`
	Choices   []int  `json:"choices,omitempty"`
	Policy    string `json:"policy,omitempty"` // base order of enabled entities for the owned scheduler
	Repeat    int    `json:"repeat,omitempty"`
	OrderKind string `json:"order_kind"`
	Filter    *Keep  `json:"filter,omitempty"`
	// Format "pbf": the document is handed to ExtractPBF as an OSM PBF file written by the check's own encoder (dense
	// nodes, uncompressed blobs; the header declares Sort.Type_then_ID when the element order really is that)
	Format string `json:"format,omitempty"`
}

var plainKeys, plainVals = []string{"highway", "building", "name"}, []string{"a", "b", "c"}

// keys and values that contain the characters a writer of keys and values must not give a meaning to: '=' inside, at the
// end and at the start, the empty value, and strings that are each other's prefix - "k" with value "v=x" and "k=v" with
// value "x" are two different tags
var oddKeys, oddVals = []string{"k", "k", "k=v", "k=v", "k=", "=", "k=v=x"}, []string{"v=x", "v=x", "x", "x", "=x", "", "v", "=v=x"}

// the alphabet of the case being generated (set by gen)
var tagKeys, tagVals = plainKeys, plainVals

func genTags(t *rapid.T) []Tag {
	n := rapid.IntRange(0, 2).Draw(t, "ntags")
	var out []Tag
	seen := map[string]bool{}
	for i := 0; i < n; i++ {
		k := rapid.SampledFrom(tagKeys).Draw(t, "tk")
		if seen[k] {
			continue
		}
		seen[k] = true
		out = append(out, Tag{k, rapid.SampledFrom(tagVals).Draw(t, "tv")})
	}
	return out
}

func genKeep(t *rapid.T, allowBounds bool) Keep {
	kinds := []string{"tags", "tags", "all"}
	if allowBounds {
		kinds = []string{"tags", "bounds", "bounds", "bounds", "all"}
	}
	k := Keep{Kind: rapid.SampledFrom(kinds).Draw(t, "keepkind")}
	switch k.Kind {
	case "tags":
		k.Tags = map[string][]string{}
		n := rapid.IntRange(1, 2).Draw(t, "nk")
		for i := 0; i < n; i++ {
			key := rapid.SampledFrom(tagKeys).Draw(t, "kk")
			nv := rapid.IntRange(0, 2).Draw(t, "nv")
			vals := []string{}
			for j := 0; j < nv; j++ {
				vals = append(vals, rapid.SampledFrom(tagVals).Draw(t, "kv"))
			}
			k.Tags[key] = vals
		}
	case "bounds":
		x0, y0 := float64(rapid.IntRange(0, 4).Draw(t, "bx")), float64(rapid.IntRange(0, 4).Draw(t, "by"))
		k.Bounds = [4]float64{x0, y0, x0 + float64(rapid.IntRange(0, 3).Draw(t, "bw")), y0 + float64(rapid.IntRange(0, 3).Draw(t, "bh"))}
	}
	return k
}

func genDoc(t *rapid.T) (Doc, string) {
	var d Doc
	nn := rapid.IntRange(0, 25).Draw(t, "nn")
	for i := 0; i < nn; i++ {
		d.Nodes = append(d.Nodes, DNode{ID: int64(i + 1), Lat: float64(rapid.IntRange(0, 12).Draw(t, "lat")) / 2, Lon: float64(rapid.IntRange(0, 12).Draw(t, "lon")) / 2, Tags: genTags(t)})
	}
	dangling := rapid.IntRange(0, 19).Draw(t, "dangling") == 0
	ref := func(n int, lbl string) int64 {
		hi := n
		if dangling {
			hi = n + 2
		}
		if hi == 0 {
			return 1
		}
		return int64(rapid.IntRange(1, hi).Draw(t, lbl))
	}
	nw := rapid.IntRange(0, 12).Draw(t, "nw")
	for i := 0; i < nw; i++ {
		w := DWay{ID: int64(i + 1), Tags: genTags(t)}
		k := rapid.IntRange(1, 6).Draw(t, "nrefs")
		for j := 0; j < k; j++ {
			if nn == 0 && !dangling {
				break
			}
			w.Refs = append(w.Refs, ref(nn, "nref"))
		}
		if len(w.Refs) >= 3 && rapid.Bool().Draw(t, "closed") {
			w.Refs = append(w.Refs, w.Refs[0])
		}
		d.Ways = append(d.Ways, w)
	}
	nr := rapid.IntRange(0, 8).Draw(t, "nr")
	for i := 0; i < nr; i++ {
		r := DRel{ID: int64(i + 1), Tags: genTags(t)}
		k := rapid.IntRange(0, 4).Draw(t, "nmem")
		for j := 0; j < k; j++ {
			switch rapid.IntRange(0, 2).Draw(t, "mtype") {
			case 0:
				if nn > 0 || dangling {
					r.Members = append(r.Members, DMember{"node", ref(nn, "mref")})
				}
			case 1:
				if nw > 0 || dangling {
					r.Members = append(r.Members, DMember{"way", ref(nw, "mref")})
				}
			default: // relations of relations, including self and mutual cycles
				r.Members = append(r.Members, DMember{"relation", ref(nr, "mref")})
			}
		}
		d.Rels = append(d.Rels, r)
	}
	// element order
	var conv []Elem
	for i := range d.Nodes {
		conv = append(conv, Elem{"n", i})
	}
	for i := range d.Ways {
		conv = append(conv, Elem{"w", i})
	}
	for i := range d.Rels {
		conv = append(conv, Elem{"r", i})
	}
	kind := rapid.SampledFrom([]string{"conventional", "conventional", "permuted", "reversed", "after_refs"}).Draw(t, "orderkind")
	switch kind {
	case "conventional":
		d.Order = conv
	case "reversed":
		for i := len(conv) - 1; i >= 0; i-- {
			d.Order = append(d.Order, conv[i])
		}
	case "permuted":
		if len(conv) > 0 {
			d.Order = rapid.Permutation(conv).Draw(t, "perm")
		}
	case "after_refs":
		// every way directly after the last node it references, relations at the end: the order that
		// maximises the window between "node stored" and "way judged"
		lastRef := map[int][]int{}
		for wi, w := range d.Ways {
			best := -1
			for _, r := range w.Refs {
				if int(r)-1 > best && int(r) <= len(d.Nodes) {
					best = int(r) - 1
				}
			}
			lastRef[best] = append(lastRef[best], wi)
		}
		for _, wi := range lastRef[-1] {
			d.Order = append(d.Order, Elem{"w", wi})
		}
		for i := range d.Nodes {
			d.Order = append(d.Order, Elem{"n", i})
			for _, wi := range lastRef[i] {
				d.Order = append(d.Order, Elem{"w", wi})
			}
		}
		for i := range d.Rels {
			d.Order = append(d.Order, Elem{"r", i})
		}
	}
	return d, kind
}

// genChain draws a dependency chain that needs one pass per link: tagged relation r1 -> r2 -> ... -> r_d -> way -> nodes,
// listed in reverse dependency order (deepest first), so that in every pass exactly one object is stored and every
// other worker of the pool ends the pass having stored nothing. Plus a few unrelated elements.
func genChain(t *rapid.T) (Doc, Keep) {
	return genChainN(t, rapid.IntRange(1, 8).Draw(t, "depth"))
}

func genChainN(t *rapid.T, depth int) (Doc, Keep) {
	var d Doc
	nn := rapid.IntRange(2, 5).Draw(t, "cn")
	for i := 0; i < nn; i++ {
		d.Nodes = append(d.Nodes, DNode{ID: int64(i + 1), Lat: float64(i), Lon: float64(i)})
	}
	extra := rapid.IntRange(0, 6).Draw(t, "extra")
	for i := 0; i < extra; i++ {
		d.Nodes = append(d.Nodes, DNode{ID: int64(nn + i + 1), Lat: 9, Lon: 9, Tags: []Tag{{"name", "x"}}})
	}
	w := DWay{ID: 1}
	for i := 0; i < nn; i++ {
		w.Refs = append(w.Refs, int64(i+1))
	}
	d.Ways = []DWay{w}
	key := rapid.SampledFrom(tagKeys).Draw(t, "ck")
	val := rapid.SampledFrom(tagVals).Draw(t, "cv")
	for i := 0; i < depth; i++ {
		r := DRel{ID: int64(i + 1)}
		if i == 0 {
			r.Tags = []Tag{{key, val}}
		}
		if i+1 < depth {
			r.Members = []DMember{{"relation", int64(i + 2)}}
		} else {
			r.Members = []DMember{{"way", 1}}
		}
		d.Rels = append(d.Rels, r)
	}
	// deepest first: nodes, the way, then r_d ... r_1 would let everything resolve in d+2 passes of one store each
	for i := range d.Nodes {
		d.Order = append(d.Order, Elem{"n", i})
	}
	d.Order = append(d.Order, Elem{"w", 0})
	for i := depth - 1; i >= 0; i-- {
		d.Order = append(d.Order, Elem{"r", i})
	}
	return d, Keep{Kind: "tags", Tags: map[string][]string{key: {val}}}
}

// remapIDs replaces every id (and every reference to it, dangling ones included) by f(kind, id): ids in OSM are any
// int64 - editors use negative ids for objects not yet uploaded, and nothing bounds them by 2^40.
func remapIDs(d *Doc, f func(kind string, id int64) int64) {
	for i := range d.Nodes {
		d.Nodes[i].ID = f("node", d.Nodes[i].ID)
	}
	for i := range d.Ways {
		d.Ways[i].ID = f("way", d.Ways[i].ID)
		for j := range d.Ways[i].Refs {
			d.Ways[i].Refs[j] = f("node", d.Ways[i].Refs[j])
		}
	}
	for i := range d.Rels {
		d.Rels[i].ID = f("relation", d.Rels[i].ID)
		for j := range d.Rels[i].Members {
			d.Rels[i].Members[j].Ref = f(d.Rels[i].Members[j].Type, d.Rels[i].Members[j].Ref)
		}
	}
}

func gen(t *rapid.T) Case {
	var c Case
	tagKeys, tagVals = plainKeys, plainVals
	if rapid.IntRange(0, 3).Draw(t, "oddalphabet") == 2 {
		tagKeys, tagVals = oddKeys, oddVals
	}
	defer func() { tagKeys, tagVals = plainKeys, plainVals }()
	if vkit.Tier() == "thorough" && rapid.IntRange(0, 499).Draw(t, "pbf") == 317 {
		// the repository's Honolulu extract through ExtractPBF (seconds per case)
		c.Engine = "pbf"
		c.Keep = genPBFKeep(t)
		c.KeepTags = rapid.Bool().Draw(t, "keeptags")
		c.Procs = rapid.SampledFrom([]int{1, 4, 16}).Draw(t, "procs")
		return c
	}
	c.Doc, c.OrderKind = genDoc(t)
	c.Keep = genKeep(t, true)
	c.KeepTags = rapid.Bool().Draw(t, "keeptags")
	c.ReadFirst = rapid.SampledFrom([]int{0, 0, 0, 0, 1, 2}).Draw(t, "readfirst")
	c.Engine = rapid.SampledFrom([]string{"sched", "sched", "sched", "sched", "sched", "sched", "plain", "plain", "filter", "filter", "stress"}).Draw(t, "engine")
	c.Procs = rapid.SampledFrom([]int{1, 2, 3, 4, 8}).Draw(t, "procs")
	switch c.Engine {
	case "sched":
		c.Policy = rapid.SampledFrom([]string{"feeder_first_fifo", "feeder_first_lifo", "feeder_first_lifo", "workers_first_fifo", "workers_first_lifo",
			"feeder_first_fifo_answers_wait", "feeder_first_lifo_answers_wait", "workers_first_fifo_answers_wait"}).Draw(t, "policy")
		// deviations from the base order: mostly none (0), so that starvation patterns persist
		c.Choices = rapid.SliceOfN(rapid.SampledFrom([]int{0, 0, 0, 0, 0, 0, 1, 1, 2, 3}), 0, 250).Draw(t, "choices")
	case "plain":
		c.Repeat = rapid.IntRange(1, 3).Draw(t, "repeat")
		c.Procs = rapid.SampledFrom([]int{1, 2, 4, 8, 16}).Draw(t, "procs2")
	case "stress":
		// real threads, no hook: a pool much wider than the work, many repetitions; half of the documents are
		// one-store-per-pass chains (every pass ends with all but one worker having stored nothing)
		if rapid.Bool().Draw(t, "chain") {
			c.Doc, c.Keep = genChain(t)
			c.OrderKind = "chain"
		}
		c.Repeat = rapid.IntRange(20, 60).Draw(t, "repeat2")
		c.Procs = rapid.SampledFrom([]int{2, 4, 8, 16, 32, 64}).Draw(t, "procs3")
	case "filter":
		f := genKeep(t, false)
		c.Filter = &f
		c.KeepTags = true
	}
	if vkit.Tier() == "thorough" && rapid.IntRange(0, 3999).Draw(t, "deepchain") == 1234 {
		// thorough tier only (a case costs depth^2 object reads, 5 to 30 s): a chain of 1000 to 2600 relations listed
		// deepest first, which takes as many passes as it is long - the least closed set has no depth limit
		c.Doc, c.Keep = genChainN(t, rapid.SampledFrom([]int{1000, 2100, 2600}).Draw(t, "deepchainn"))
		c.OrderKind, c.Engine, c.Repeat, c.ReadFirst = "chain", "plain", 1, 0
		c.Procs = rapid.SampledFrom([]int{1, 4}).Draw(t, "deepchainprocs")
	}
	if f := rapid.IntRange(0, 11).Draw(t, "format"); f == 2 || (f < 5 && c.OrderKind == "conventional") {
		// (more often for documents in the conventional order: their header declares them sorted)
		c.Format = "pbf"
		if c.Repeat > 6 {
			c.Repeat = 6 // a PBF scanner is set up for every pass: keep the stress engine's repetitions affordable
		}
	}
	if c.Format == "" && rapid.IntRange(0, 3).Draw(t, "extras") == 1 {
		// top-level elements that are not nodes, ways or relations; a changeset (a type extract does not know) only in
		// the engines without the owned scheduler, whose model of the pool assumes that every worker finishes its object
		kinds := []string{"bounds", "bounds", "bounds", "note", "user"}
		if c.Engine == "plain" || c.Engine == "stress" {
			kinds = append(kinds, "changeset", "changeset", "changeset")
		}
		for i, n := 0, rapid.IntRange(1, 4).Draw(t, "nextras"); i < n; i++ {
			k := rapid.SampledFrom(kinds).Draw(t, "extra")
			if i > 0 && rapid.Bool().Draw(t, "sameextra") {
				k = c.Doc.Extras[i-1] // several of a kind (as many as there are workers)
			}
			pos := rapid.IntRange(0, len(c.Doc.Order)).Draw(t, "extrapos")
			c.Doc.Order = append(c.Doc.Order[:pos], append([]Elem{{"x", len(c.Doc.Extras)}}, c.Doc.Order[pos:]...)...)
			c.Doc.Extras = append(c.Doc.Extras, k)
		}
	}
	if idk := rapid.SampledFrom([]string{"", "", "", "negative", "huge40", "huge44", "huge62", "mixed"}).Draw(t, "idkind"); idk != "" {
		c.IDKind = idk
		base := map[string]int64{"negative": 0, "huge40": 1 << 40, "huge44": 1<<44 + 1, "huge62": 1<<62 + 11}
		remapIDs(&c.Doc, func(kind string, id int64) int64 {
			switch idk {
			case "negative":
				return -id
			case "mixed": // another range per element type
				switch kind {
				case "node":
					return -id
				case "way":
					return id + 1<<40
				}
				return id + 1<<44
			}
			return id + base[idk]
		})
	}
	if f := os.Getenv("VERIF_C18_FORCE"); f != "" {
		// sensitivity experiments only (see DESIGN.md): restrict to one engine and the conventional element order
		c.Engine = f
		if c.Engine == "sched" && c.Policy == "" {
			c.Policy = rapid.SampledFrom([]string{"feeder_first_fifo", "feeder_first_lifo", "workers_first_fifo", "workers_first_lifo"}).Draw(t, "policy")
			c.Choices = rapid.SliceOfN(rapid.SampledFrom([]int{0, 0, 0, 0, 0, 0, 1, 1, 2, 3}), 0, 250).Draw(t, "choices")
		}
		if c.Engine == "plain" && c.Repeat == 0 {
			c.Repeat = 3
		}
		if c.OrderKind != "conventional" {
			c.OrderKind = "conventional"
			c.Doc.Order = nil
			for i := range c.Doc.Nodes {
				c.Doc.Order = append(c.Doc.Order, Elem{"n", i})
			}
			for i := range c.Doc.Ways {
				c.Doc.Order = append(c.Doc.Order, Elem{"w", i})
			}
			for i := range c.Doc.Rels {
				c.Doc.Order = append(c.Doc.Order, Elem{"r", i})
			}
		}
		if c.Filter != nil {
			c.Filter = nil
		}
	}
	return c
}

var procMu sync.Mutex

// errStuck: extract can never return (decided from the goroutine states, not from a time limit).
var errStuck = fmt.Errorf("ExtractXML can never return: its reading loop is blocked sending an object to the pool and every worker of the pool has exited")

var goroutineHeader = regexp.MustCompile(`(?m)^goroutine (\d+) \[([^\]]*)\]:$`)

// extractWatched runs ExtractXML in a goroutine of its own and watches it: when the goroutine is blocked in a channel
// send and no goroutine created by it (the workers of the pool) exists any more, nothing can ever receive and the call
// cannot return; that state is permanent and read from one stop-the-world snapshot, so looking at it late or early
// gives the same answer. Until then the wait goes on (a slow run is not a violation).
// usedReader returns a reader over doc in the state the case asks for.
func usedReader(doc []byte, readFirst int) *bytes.Reader {
	r := bytes.NewReader(doc)
	switch readFirst {
	case 1:
		r.Seek(0, 2)
	case 2:
		r.Seek(int64(len(doc)/3), 0)
	}
	return r
}

func extractWatched(xml []byte, keep gosm.KeepFunc, keepTags, pbf bool, readFirst int) (data *gosm.Data, err error) {
	done := make(chan struct{})
	idc := make(chan string, 1)
	var pan interface{}
	go func() {
		defer close(done)
		defer func() { pan = recover() }()
		buf := make([]byte, 64)
		buf = buf[:runtime.Stack(buf, false)] // "goroutine N [running]:..."
		id := ""
		if f := bytes.Fields(buf); len(f) >= 2 {
			id = string(f[1])
		}
		idc <- id
		if pbf {
			data, err = gosm.ExtractPBF(context.Background(), usedReader(xml, readFirst), keep, keepTags)
			return
		}
		data, err = gosm.ExtractXML(context.Background(), usedReader(xml, readFirst), keep, keepTags)
	}()
	id := <-idc
	tick := 200 * time.Millisecond
	for {
		select {
		case <-done:
			if pan != nil {
				return nil, fmt.Errorf("ExtractXML panicked: %v", pan)
			}
			return data, err
		case <-time.After(tick):
		}
		if tick < 5*time.Second {
			tick *= 2
		}
		buf := make([]byte, 1<<20)
		buf = buf[:runtime.Stack(buf, true)]
		inSend, children := false, 0
		for _, blk := range bytes.Split(buf, []byte("\n\n")) {
			m := goroutineHeader.FindSubmatch(blk)
			if m == nil {
				continue
			}
			if string(m[1]) == id && strings.HasPrefix(string(m[2]), "chan send") {
				inSend = true
			}
			if bytes.Contains(blk, []byte("in goroutine "+id+"\n")) || bytes.HasSuffix(blk, []byte("in goroutine "+id)) {
				children++
			}
		}
		if inSend && children == 0 {
			return nil, errStuck
		}
	}
}

// extractWith runs one extraction under the given engine; sched returns the controller for statistics.
func extractWith(c Case, xml []byte) (data *gosm.Data, ctl *controller, err error) {
	procMu.Lock()
	defer procMu.Unlock()
	old := runtime.GOMAXPROCS(c.Procs)
	defer runtime.GOMAXPROCS(old)
	keep := c.Keep.Func()
	if c.Engine != "sched" {
		gosm.VerifHook = nil
		data, err = extractWatched(xml, keep, c.KeepTags, c.Format == "pbf", c.ReadFirst)
		return
	}
	ctl = &controller{events: make(chan *park), nprocs: c.Procs, choices: c.Choices, policy: c.Policy}
	gosm.VerifHook = ctl.hook
	defer func() { gosm.VerifHook = nil }()
	done := make(chan struct{})
	var pan interface{}
	go func() {
		defer close(done)
		defer func() { pan = recover() }()
		if c.Format == "pbf" {
			data, err = gosm.ExtractPBF(context.Background(), usedReader(xml, c.ReadFirst), ctl.wrapKeep(keep), c.KeepTags)
		} else {
			data, err = gosm.ExtractXML(context.Background(), usedReader(xml, c.ReadFirst), ctl.wrapKeep(keep), c.KeepTags)
		}
	}()
	if e := ctl.run(done); e != nil {
		return nil, ctl, e
	}
	<-done
	if pan != nil {
		return nil, ctl, fmt.Errorf("ExtractXML panicked: %v", pan)
	}
	return
}

func run(c Case) (v vkit.Verdict) {
	if c.Engine == "pbf" {
		return runPBF(c)
	}
	xml := []byte(c.Doc.XML())
	if c.Format == "pbf" {
		xml = c.Doc.PBF(c.Doc.SortedByTypeThenID())
		v.Class("format_pbf")
		if c.Doc.SortedByTypeThenID() {
			v.Class("pbf_header_declares_sorted")
		}
	}
	want, dangling := Model(c.Doc, c.Keep)
	v.Class("engine_" + c.Engine)
	if c.IDKind != "" {
		v.Class("ids_" + c.IDKind)
	}
	v.Class("keep_" + c.Keep.Kind)
	v.Class("order_" + c.OrderKind)
	if dangling {
		v.Class("dangling_refs")
	}
	// some object is in the closure only because of state built earlier
	stateful := c.Keep.Kind == "bounds" && (len(want.W) > 0 || len(want.R) > 0)
	if c.Keep.Kind != "bounds" {
		for _, r := range c.Doc.Rels {
			if want.R[r.ID] {
				for _, m := range r.Members {
					if m.Type != "node" {
						stateful = true // >= 2 dependency levels
					}
				}
			}
		}
	}
	if stateful {
		v.Class("selection_depends_on_state")
	}
	n := 1
	if c.Engine == "plain" || c.Engine == "stress" {
		n = c.Repeat
	}
	for _, k := range []string{"bounds", "note", "user", "changeset"} {
		if c.Doc.HasExtra(k) {
			v.Class("document_with_" + k)
		}
	}
	if c.Doc.HasExtra("changeset") {
		// a type of element extract does not know: it may refuse the document, but then for every number of workers, and
		// it has to return. The same document at 1 worker, at as many workers as the document has changesets (all of
		// them can die), and at the drawn number.
		nch := 0
		for _, e := range c.Doc.Extras {
			if e == "changeset" {
				nch++
			}
		}
		refused, accepted := 0, 0
		for _, procs := range []int{1, nch, c.Procs} {
			cc := c
			cc.Procs = procs
			_, _, err := extractWith(cc, xml)
			if err == errStuck {
				return v.Fail("ExtractXML (%s, %d workers) on a document with %d changeset element(s) among %d elements: %v", c.Engine, procs, nch, len(c.Doc.Order), err)
			}
			if err != nil {
				refused++
			} else {
				accepted++
			}
		}
		if refused > 0 && accepted > 0 {
			return v.Fail("ExtractXML on a document with %d changeset element(s): refused or not depending on GOMAXPROCS (1, %d, %d)", nch, nch, c.Procs)
		}
		v.NonTrivial = true
		if refused > 0 {
			v.Class("changeset_document_refused")
			return v
		}
	}
	var data *gosm.Data
	for i := 0; i < n; i++ {
		var ctl *controller
		var err error
		data, ctl, err = extractWith(c, xml)
		if err != nil {
			return v.Fail("ExtractXML (%s, %d workers): %v", c.Engine, c.Procs, err)
		}
		if msg := Compare(c.Doc, want, data, c.KeepTags); msg != "" {
			return v.Fail("ExtractXML (%s engine, %d workers, %s order, keep %s, run %d): %s", c.Engine, c.Procs, c.OrderKind, c.Keep.Kind, i+1, msg)
		}
		if !dangling {
			if err := data.Check(); err != nil {
				return v.Fail("Check() on the result of a document without dangling references: %v", err)
			}
		}
		if ctl != nil {
			v.Class(fmt.Sprintf("passes_%d", ctl.passes))
			v.Class("policy_" + c.Policy)
			if ctl.reorder > 0 && stateful {
				v.NonTrivial = true
				v.Class("schedule_reorders_objects")
			}
		}
	}
	if c.Engine == "plain" && stateful && c.OrderKind != "conventional" {
		v.NonTrivial = true
	}
	if c.Engine == "stress" && stateful && c.Procs >= 2 {
		v.NonTrivial = true
		v.Class(fmt.Sprintf("stress_procs_%d", c.Procs))
	}
	if c.Engine == "filter" {
		fk := c.Filter.Func()
		var f1 *gosm.Data
		if p := vkit.Catch(func() { f1 = data.Filter(fk) }); p != "" {
			return v.Fail("Filter panicked: %s", p)
		}
		// the model applied to the extracted data (as a document)
		sub := Doc{}
		for _, nd := range c.Doc.Nodes {
			if want.N[nd.ID] {
				sub.Nodes = append(sub.Nodes, nd)
			}
		}
		for _, w := range c.Doc.Ways {
			if want.W[w.ID] {
				sub.Ways = append(sub.Ways, w)
			}
		}
		for _, r := range c.Doc.Rels {
			if want.R[r.ID] {
				sub.Rels = append(sub.Rels, r)
			}
		}
		fw, subDangling := Model(sub, *c.Filter)
		if msg := Compare(sub, fw, f1, true); msg != "" {
			return v.Fail("Filter(%s) of the extraction: %s", c.Filter.Kind, msg)
		}
		for id := range f1.Nodes {
			if _, ok := data.Nodes[id]; !ok {
				return v.Fail("Filter returned node %d that it was not given", id)
			}
		}
		for id := range f1.Ways {
			if _, ok := data.Ways[id]; !ok {
				return v.Fail("Filter returned way %d that it was not given", id)
			}
		}
		for id := range f1.Relations {
			if _, ok := data.Relations[id]; !ok {
				return v.Fail("Filter returned relation %d that it was not given", id)
			}
		}
		if !subDangling {
			if err := f1.Check(); err != nil {
				return v.Fail("Check() on the Filter result: %v", err)
			}
		}
		f2 := f1.Filter(fk)
		if len(f2.Nodes) != len(f1.Nodes) || len(f2.Ways) != len(f1.Ways) || len(f2.Relations) != len(f1.Relations) {
			return v.Fail("Filter is not idempotent: %d/%d/%d then %d/%d/%d", len(f1.Nodes), len(f1.Ways), len(f1.Relations), len(f2.Nodes), len(f2.Ways), len(f2.Relations))
		}
		if msg := Compare(sub, fw, f2, true); msg != "" {
			return v.Fail("Filter applied twice: %s", msg)
		}
		v.NonTrivial = len(f1.Ways)+len(f1.Relations) > 0
	}
	return v
}

func TestProp(t *testing.T) {
	vkit.Main(t, vkit.Spec[Case]{
		ID: "C18",
		Rule: "rapid: OSM XML documents of 0-25 nodes on a half-unit grid, 0-12 ways (1-6 node refs, shared nodes, closed ways), 0-8 relations (node/way/relation members, relations of " +
			"relations incl. self and mutual cycles), tags from a 3x3 alphabet, 5% with dangling references; element order conventional, reversed, a drawn permutation, or every way directly after " +
			"the last node it references; keep = KeepTags (drawn key/value sets incl. empty value lists), KeepBounds (drawn box; objects inside, outside, on the border), KeepAll; keepTags on/off; " +
			"1-8 workers (GOMAXPROCS); a quarter of the documents carry 1-4 top-level elements that are not nodes, ways or relations at drawn positions (bounds, note, user: must make no difference; changeset, plain and stress engines only: a type extract does not know - the document is run at 1 worker, at as many workers as it has changesets and at the drawn number, must be refused for all of them or none, and the call has to return: a watcher reads the goroutine states and reports 'can never return' when the reading loop is blocked in a channel send and no goroutine created by it is left); in 5 cases of 8 all ids and references are mapped to negative values or beyond 2^40 / 2^44 / 2^62. Engines: (sched) the owned scheduler - the pool's workers and reading loop park at the verif hook points and inside the keep function; a drawn choice list picks " +
			"which enabled entity runs next, so a schedule is a replayable list of integers; (plain) no hook, 1-3 repetitions at GOMAXPROCS 1-16; (stress, 1 case in 11) no hook, 20-60 repetitions at GOMAXPROCS 2-64 of a drawn document or of a one-store-per-pass dependency chain (tagged relation -> ... -> relation -> way -> nodes listed deepest first), for interleavings between the hook points that only real threads produce; (filter) Filter(KeepTags|KeepAll) of an extraction; (pbf, thorough only, a fraction of a percent of the cases) the repository's Honolulu extract through ExtractPBF with drawn tag/bounds filters against the model fed by the same scanner's object stream. " +
			"Oracle: sequential least-fixed-point model (selected by keep against the set itself, or referenced from the set) computed by naive iteration; id sets and payloads (coordinates, node " +
			"lists, members, tags iff keepTags) must equal the model for every schedule and worker count; Check() nil when the document has no dangling reference; Filter result = model applied to " +
			"the extracted data, subset, closed, idempotent. Non-trivial = some object is selected only because of state built earlier (bounds-selected way/relation or >=2 dependency levels) and the " +
			"schedule releases some entity out of canonical order (sched) / the element order is not conventional (plain); filter cases with ways or relations. Distinct by case hash." +
			" Round 9: tag keys and values containing '=', ',' and blanks, extending one another across an '=' sign." +
			" Round 10: one case in three hands over a reader that was read to its end, or a third of the way, before." +
			" Round 11 (thorough tier only): about one case in 4000 is a chain of 1000, 2100 or 2600 relations listed deepest first.",
		Assumptions: []string{"schedules are explored at the granularity of the hook points (receive, keep evaluation, done, send, close)", "the sched engine depends on the build-tag verif hooks in encoding/osm"},
		Gen:         gen,
		Run:         run,
		NSamples:    4,
	})
}
