//go:build verif

package c18

import (
	"encoding/binary"
	"math"
)

// A minimal OSM PBF writer (uncompressed blobs, dense nodes), written from the format description, so that generated
// documents can go through ExtractPBF as well: file = ([4-byte length][BlobHeader][Blob])*, first blob an OSMHeader,
// then OSMData blobs holding one PrimitiveBlock each.

type pbuf struct{ b []byte }

func (p *pbuf) varint(v uint64) {
	var t [10]byte
	n := binary.PutUvarint(t[:], v)
	p.b = append(p.b, t[:n]...)
}
func zig(v int64) uint64            { return uint64(v<<1) ^ uint64(v>>63) }
func (p *pbuf) key(field, wire int) { p.varint(uint64(field<<3 | wire)) }
func (p *pbuf) bytes(field int, b []byte) {
	p.key(field, 2)
	p.varint(uint64(len(b)))
	p.b = append(p.b, b...)
}
func (p *pbuf) str(field int, s string) { p.bytes(field, []byte(s)) }
func (p *pbuf) int(field int, v int64)  { p.key(field, 0); p.varint(uint64(v)) }

func packed(vals []uint64) []byte {
	var p pbuf
	for _, v := range vals {
		p.varint(v)
	}
	return p.b
}

func blob(kind string, data []byte) []byte {
	var bl pbuf
	bl.bytes(1, data) // raw
	bl.int(2, int64(len(data)))
	var hd pbuf
	hd.str(1, kind)
	hd.int(3, int64(len(bl.b)))
	out := make([]byte, 4)
	binary.BigEndian.PutUint32(out, uint32(len(hd.b)))
	out = append(out, hd.b...)
	return append(out, bl.b...)
}

// PBF renders the document in its element order; sortedHeader adds the optional feature "Sort.Type_then_ID" (only to be
// used when the order really is nodes, ways, relations, each by ascending id).
func (d Doc) PBF(sortedHeader bool) []byte {
	var hb pbuf
	hb.str(4, "OsmSchema-V0.6")
	hb.str(4, "DenseNodes")
	if sortedHeader {
		hb.str(5, "Sort.Type_then_ID")
	}
	hb.str(16, "verif")
	out := blob("OSMHeader", hb.b)

	// string table shared by the one primitive block
	strs := []string{""}
	idx := map[string]int{"": 0}
	sid := func(s string) uint64 {
		if i, ok := idx[s]; ok {
			return uint64(i)
		}
		idx[s] = len(strs)
		strs = append(strs, s)
		return uint64(len(strs) - 1)
	}
	kv := func(tags []Tag) (k, v []uint64) {
		for _, t := range tags {
			k, v = append(k, sid(t[0])), append(v, sid(t[1]))
		}
		return
	}
	var groups [][]byte
	i := 0
	for i < len(d.Order) {
		j := i
		for j < len(d.Order) && d.Order[j].Kind == d.Order[i].Kind {
			j++
		}
		var g pbuf
		switch d.Order[i].Kind {
		case "n":
			var ids, lats, lons, kvs []uint64
			var pid, plat, plon int64
			anyTags := false
			for _, e := range d.Order[i:j] {
				n := d.Nodes[e.Idx]
				lat, lon := int64(math.Round(n.Lat*1e7)), int64(math.Round(n.Lon*1e7))
				ids, lats, lons = append(ids, zig(n.ID-pid)), append(lats, zig(lat-plat)), append(lons, zig(lon-plon))
				pid, plat, plon = n.ID, lat, lon
				for _, t := range n.Tags {
					kvs = append(kvs, sid(t[0]), sid(t[1]))
					anyTags = true
				}
				kvs = append(kvs, 0)
			}
			var dn pbuf
			dn.bytes(1, packed(ids))
			dn.bytes(8, packed(lats))
			dn.bytes(9, packed(lons))
			if anyTags {
				dn.bytes(10, packed(kvs))
			}
			g.bytes(2, dn.b)
		case "w":
			for _, e := range d.Order[i:j] {
				w := d.Ways[e.Idx]
				var wb pbuf
				wb.int(1, w.ID)
				k, v := kv(w.Tags)
				if len(k) > 0 {
					wb.bytes(2, packed(k))
					wb.bytes(3, packed(v))
				}
				var refs []uint64
				var prev int64
				for _, r := range w.Refs {
					refs = append(refs, zig(r-prev))
					prev = r
				}
				wb.bytes(8, packed(refs))
				g.bytes(3, wb.b)
			}
		case "r":
			for _, e := range d.Order[i:j] {
				r := d.Rels[e.Idx]
				var rb pbuf
				rb.int(1, r.ID)
				k, v := kv(r.Tags)
				if len(k) > 0 {
					rb.bytes(2, packed(k))
					rb.bytes(3, packed(v))
				}
				var roles, mem, types []uint64
				var prev int64
				for _, m := range r.Members {
					roles = append(roles, sid(""))
					mem = append(mem, zig(m.Ref-prev))
					prev = m.Ref
					types = append(types, map[string]uint64{"node": 0, "way": 1, "relation": 2}[m.Type])
				}
				rb.bytes(8, packed(roles))
				rb.bytes(9, packed(mem))
				rb.bytes(10, packed(types))
				g.bytes(4, rb.b)
			}
		}
		if len(g.b) > 0 {
			groups = append(groups, g.b)
		}
		i = j
	}
	var st pbuf
	for _, s := range strs {
		st.str(1, s)
	}
	var pb pbuf
	pb.bytes(1, st.b)
	for _, g := range groups {
		pb.bytes(2, g)
	}
	return append(out, blob("OSMData", pb.b)...)
}

// SortedByTypeThenID reports whether the element order is nodes, ways, relations, each by ascending id (and there are
// no other elements).
func (d Doc) SortedByTypeThenID() bool {
	rank := map[string]int{"n": 0, "w": 1, "r": 2}
	lastRank, lastID := -1, int64(math.MinInt64)
	for _, e := range d.Order {
		rk, ok := rank[e.Kind]
		if !ok {
			return false
		}
		var id int64
		switch e.Kind {
		case "n":
			id = d.Nodes[e.Idx].ID
		case "w":
			id = d.Ways[e.Idx].ID
		case "r":
			id = d.Rels[e.Idx].ID
		}
		if rk < lastRank || (rk == lastRank && id <= lastID) {
			return false
		}
		lastRank, lastID = rk, id
	}
	return true
}
