//go:build verif

package c18

import (
	"context"
	"fmt"
	"os"
	"runtime"
	"sync"

	gosm "github.com/ctessum/geom/encoding/osm"
	"github.com/paulmach/osm"
	"github.com/paulmach/osm/osmpbf"
	"pgregory.net/rapid"
	"verif/vkit"
)

// The repository's Honolulu extract exercises the PBF path: the model is fed by the same scanner's object stream.

const pbfPath = "/repo/encoding/osm/testdata/honolulu_hawaii.osm.pbf"

var (
	pbfOnce sync.Once
	pbfDoc  Doc
	pbfErr  error
)

func toTags(t osm.Tags) []Tag {
	var out []Tag
	for _, x := range t {
		out = append(out, Tag{x.Key, x.Value})
	}
	return out
}

func loadPBF() (Doc, error) {
	pbfOnce.Do(func() {
		f, err := os.Open(pbfPath)
		if err != nil {
			pbfErr = err
			return
		}
		defer f.Close()
		sc := osmpbf.New(context.Background(), f, 1)
		defer sc.Close()
		for sc.Scan() {
			switch o := sc.Object().(type) {
			case *osm.Node:
				pbfDoc.Nodes = append(pbfDoc.Nodes, DNode{ID: int64(o.ID), Lat: o.Lat, Lon: o.Lon, Tags: toTags(o.Tags)})
			case *osm.Way:
				w := DWay{ID: int64(o.ID), Tags: toTags(o.Tags)}
				for _, n := range o.Nodes {
					w.Refs = append(w.Refs, int64(n.ID))
				}
				pbfDoc.Ways = append(pbfDoc.Ways, w)
			case *osm.Relation:
				r := DRel{ID: int64(o.ID), Tags: toTags(o.Tags)}
				for _, m := range o.Members {
					r.Members = append(r.Members, DMember{Type: string(m.Type), Ref: m.Ref})
				}
				pbfDoc.Rels = append(pbfDoc.Rels, r)
			}
		}
		pbfErr = sc.Err()
	})
	return pbfDoc, pbfErr
}

func genPBFKeep(t *rapid.T) Keep {
	k := Keep{Kind: rapid.SampledFrom([]string{"tags", "tags", "bounds"}).Draw(t, "pbfkeep")}
	switch k.Kind {
	case "tags":
		key := rapid.SampledFrom([]string{"highway", "building", "natural", "amenity", "route", "type", "leisure", "boundary"}).Draw(t, "pk")
		vals := map[string][]string{"highway": {"residential", "motorway", "footway", "bus_stop"}, "building": {"yes", "school"}, "natural": {"coastline", "water"},
			"amenity": {"school", "parking"}, "route": {"bus", "hiking"}, "type": {"multipolygon", "route"}, "leisure": {"park"}, "boundary": {"administrative"}}[key]
		var sel []string
		if rapid.Bool().Draw(t, "allvals") {
			sel = []string{}
		} else {
			sel = []string{rapid.SampledFrom(vals).Draw(t, "pv")}
		}
		k.Tags = map[string][]string{key: sel}
	case "bounds":
		x0 := rapid.Float64Range(-158.05, -157.75).Draw(t, "px")
		y0 := rapid.Float64Range(21.25, 21.45).Draw(t, "py")
		k.Bounds = [4]float64{x0, y0, x0 + rapid.Float64Range(0.001, 0.02).Draw(t, "pw"), y0 + rapid.Float64Range(0.001, 0.02).Draw(t, "ph")}
	}
	return k
}

func runPBF(c Case) (v vkit.Verdict) {
	v.Class("engine_pbf")
	v.Class("pbf_keep_" + c.Keep.Kind)
	doc, err := loadPBF()
	if err != nil {
		v.Class("pbf_unavailable_skipped")
		return v
	}
	want, dangling := Model(doc, c.Keep)
	f, err := os.Open(pbfPath)
	if err != nil {
		return v
	}
	defer f.Close()
	procMu.Lock()
	old := runtime.GOMAXPROCS(c.Procs)
	gosm.VerifHook = nil
	data, err := gosm.ExtractPBF(context.Background(), f, c.Keep.Func(), c.KeepTags)
	runtime.GOMAXPROCS(old)
	procMu.Unlock()
	if err != nil {
		return v.Fail("ExtractPBF: %v", err)
	}
	if msg := Compare(doc, want, data, c.KeepTags); msg != "" {
		if len(msg) > 600 {
			msg = msg[:600] + "..."
		}
		return v.Fail("ExtractPBF (Honolulu, keep %+v, %d workers): %s", c.Keep, c.Procs, msg)
	}
	if !dangling {
		if err := data.Check(); err != nil {
			return v.Fail("Check() on the Honolulu extraction: %v", err)
		}
	}
	v.NonTrivial = len(want.W)+len(want.R) > 0
	v.Class(fmt.Sprintf("pbf_selected_ways>0_%v", len(want.W) > 0))
	return v
}
