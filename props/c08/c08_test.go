// C08 — Every supported map projection inverts: inverse(forward(p)) = p.
package c08

import (
	"fmt"
	"math"
	"testing"

	"github.com/ctessum/geom/proj"
	"pgregory.net/rapid"
	"verif/props/projkit"
	"verif/vkit"
)

type Case struct {
	Dst     projkit.Def `json:"dst"`
	SrcSame bool        `json:"src_same"` // source geographic system on the destination's own datum (else WGS84)
	// SrcNoDatum: where WGS84 would be the source, use the geographic system on the WGS84 ellipsoid WITHOUT a datum
	// (+ellps=WGS84 only) - the pairing of a datum-less reference with a 3/7-parameter one
	SrcNoDatum bool `json:"src_no_datum,omitempty"`
	// SrcNone: how the datum-less source says that it has no datum ("" = not at all, "+datum=none", "+nadgrids=@null")
	SrcNone string  `json:"src_none,omitempty"`
	Lon     float64 `json:"lon"` // degrees east of Greenwich
	Lat     float64 `json:"lat"`
}

func gen(t *rapid.T) Case {
	var c Case
	c.Dst = projkit.GenDef(t, projkit.Opts{SmallShift: true, WithAxis: true, WithRA: true})
	c.SrcSame = rapid.Bool().Draw(t, "srcsame")
	c.SrcNoDatum = rapid.IntRange(0, 2).Draw(t, "srcnodatum") == 1
	if c.SrcNoDatum {
		c.SrcNone = rapid.SampledFrom([]string{"", "+datum=none", "+nadgrids=@null"}).Draw(t, "srcnone")
	}
	c.Lon, c.Lat = projkit.GenPosition(t, c.Dst)
	if c.Dst.HasShift() && math.Abs(c.Lat) > 86 {
		// through a datum shift the round trip loses the height gained in the shift (a 2-D API): with the largest shifts
		// drawn here (100 m, 1 arc second) that is up to 2 mm on the ground, and 2 mm are 1e-6 degrees of longitude at
		// latitude 89 - three times less at 86
		c.Lat = math.Copysign(86, c.Lat)
	}
	if c.Dst.HasShift() && c.Dst.Proj == "merc" && math.Abs(c.Lat) > 75 {
		// the same 2 mm, stretched by the Mercator scale (11 at latitude 85, times k_0), are more than the 2 cm allowed
		// for the projected coordinates of such pairs
		c.Lat = math.Copysign(75, c.Lat)
	}
	switch c.Dst.Proj {
	case "lcc", "aea", "eqdc":
		// "cone-side latitudes": the whole hemisphere of the standard parallels, not only their neighbourhood, and (one
		// case in eight) the last 0.15 to 0.0002 degrees before the pole, where the iterative inverses converge slowest
		sign := 1.0
		if c.Dst.Lat1 < 0 {
			sign = -1
		}
		mode := rapid.IntRange(0, 7).Draw(t, "conelat")
		if c.Dst.HasShift() {
			// not through a datum shift (a pair on one and the same 7-parameter datum takes the detour through WGS84 as
			// well): the height gained in the shift is dropped between the two legs (a 2-D API) and the inverse rotation is
			// linearised, and a millimetre of that is more than 1e-6 degrees of longitude this close to the pole
			mode = 7
		}
		switch mode {
		case 0, 1:
			c.Lat = sign * rapid.Float64Range(1, 89.9).Draw(t, "widelat")
		case 2, 3:
			// (the innermost ring three times: an inverse whose corrections only halve from step to step this close to the
			// pole shows what its stopping rule leaves behind only there)
			d := rapid.SampledFrom([]float64{0.1, 0.01, 0.001, 0.0005, 0.0003, 0.0002, 0.0002, 0.0002}).Draw(t, "poledist") * rapid.Float64Range(1, 1.5).Draw(t, "polef")
			c.Lat = sign * (90 - d)
		}
	}
	return c
}

func angDiff(a, b float64) float64 {
	d := math.Mod(a-b, 360)
	if d > 180 {
		d -= 360
	}
	if d < -180 {
		d += 360
	}
	return math.Abs(d)
}

// fresh parses both definitions and builds a new transformer (so no state survives between calls).
func fresh(src, dst string) (proj.Transformer, error) {
	s, err := proj.Parse(src)
	if err != nil {
		return nil, fmt.Errorf("Parse(%q): %v", src, err)
	}
	d, err := proj.Parse(dst)
	if err != nil {
		return nil, fmt.Errorf("Parse(%q): %v", dst, err)
	}
	tr, err := s.NewTransform(d)
	if err != nil {
		return nil, fmt.Errorf("NewTransform(%q -> %q): %v", src, dst, err)
	}
	if tr == nil {
		tr = func(x, y float64) (float64, float64, error) { return x, y, nil }
	}
	return tr, nil
}

func run(c Case) (v vkit.Verdict) {
	dst := c.Dst.String()
	srcDef := projkit.Def{Proj: "longlat", DatumKind: "name", Datum: "WGS84"}
	lon := c.Lon
	// A 2-D round trip through a datum shift loses the ellipsoidal height; it is only invertible to the stated
	// tolerances when the shift is small and the ellipsoid is (nearly) the WGS84 one. Otherwise the geographic
	// system on the destination's own datum is used (large shifts are compared with proj4js in C09 instead).
	wgsOK := c.Dst.DatumKind == "" || (c.Dst.DatumKind == "towgs" && c.Dst.EllpsKind == "") ||
		(c.Dst.DatumKind == "name" && (c.Dst.Datum == "WGS84" || c.Dst.Datum == "nad83"))
	if c.Dst.Proj == "krovak" && c.Dst.DatumKind != "" {
		wgsOK = false // krovak always works on the Bessel ellipsoid
	}
	if c.Dst.RA && c.Dst.DatumKind != "" {
		wgsOK = false // +R_A puts the datum on a sphere 7 to 14 km off the WGS84 ellipsoid: the same loss of height
	}
	c.SrcSame = c.SrcSame || !wgsOK
	if c.SrcSame {
		srcDef = c.Dst.GeographicOnSameDatum()
		lon = c.Lon - c.Dst.PMDegrees() // longitudes of that system are relative to its prime meridian
		for lon < -180 {
			lon += 360
		}
		for lon > 180 {
			lon -= 360
		}
	}
	if !c.SrcSame && c.SrcNoDatum {
		srcDef = projkit.Def{Proj: "longlat", EllpsKind: "name", Ellps: "WGS84", NoneSpelling: c.SrcNone}
		v.Class("source_without_datum")
	}
	src := srcDef.String()
	v.Class("proj_" + c.Dst.Proj)
	shift := c.Dst.HasShift() && !c.SrcSame
	pc := c.Dst.Lon0
	far := angDiff(c.Lon-c.Dst.PMDegrees(), pc) > 1
	v.NonTrivial = c.Dst.EllpsKind != "" || c.Dst.DatumKind != "" || c.Dst.UnitToMeter() != 1 || far
	if c.Dst.DatumKind != "" {
		v.Class("datum_" + c.Dst.DatumKind)
	}
	if shift {
		v.Class("datum_shift_in_round_trip")
	}
	if c.Dst.UnitToMeter() != 1 {
		v.Class("non_metre_unit")
	}
	if c.Dst.PM != "" {
		v.Class("prime_meridian")
	}
	var msg string
	if p := vkit.Catch(func() {
		fw, err := fresh(src, dst)
		if err != nil {
			msg = err.Error()
			return
		}
		x, y, err := fw(lon, c.Lat)
		if err != nil || math.IsNaN(x) || math.IsNaN(y) {
			msg = fmt.Sprintf("forward (%v, %v) -> (%v, %v), error %v", lon, c.Lat, x, y, err)
			return
		}
		bw, err := fresh(dst, src)
		if err != nil {
			msg = err.Error()
			return
		}
		lon2, lat2, err := bw(x, y)
		if err != nil || math.IsNaN(lon2) || math.IsNaN(lat2) {
			msg = fmt.Sprintf("inverse of (%v, %v) -> (%v, %v), error %v", x, y, lon2, lat2, err)
			return
		}
		if angDiff(lon2, lon) > 1e-6 || vkit.Off(lat2-c.Lat, 1e-6) {
			msg = fmt.Sprintf("geo->proj->geo: (%.9f, %.9f) -> (%.4f, %.4f) -> (%.9f, %.9f): off by (%.3g, %.3g) degrees", lon, c.Lat, x, y, lon2, lat2, angDiff(lon2, lon), math.Abs(lat2-c.Lat))
			return
		}
		// proj -> geo -> proj
		fw2, err := fresh(src, dst)
		if err != nil {
			msg = err.Error()
			return
		}
		x2, y2, err := fw2(lon2, lat2)
		if err != nil {
			msg = fmt.Sprintf("second forward: %v", err)
			return
		}
		tol := 0.01 / c.Dst.UnitToMeter()
		if shift {
			tol = 0.02 / c.Dst.UnitToMeter() // the intermediate ellipsoidal height is not carried through a 2-D round trip
		}
		if c.Dst.Proj == "longlat" {
			tol = 1e-6 // degrees
		}
		if vkit.Off(x2-x, tol) || vkit.Off(y2-y, tol) {
			msg = fmt.Sprintf("proj->geo->proj: (%.4f, %.4f) -> (%.9f, %.9f) -> (%.4f, %.4f): off by (%.3g, %.3g) units (tolerance %.3g)", x, y, lon2, lat2, x2, y2, math.Abs(x2-x), math.Abs(y2-y), tol)
		}
	}); p != "" {
		return v.Fail("panic: %s [%s -> %s]", p, src, dst)
	}
	if msg != "" {
		return v.Fail("%s [%s -> %s]", msg, src, dst)
	}
	return v
}

func TestProp(t *testing.T) {
	vkit.Main(t, vkit.Spec[Case]{
		ID: "C08",
		Rule: "rapid: PROJ.4 definitions for longlat, merc (k_0 or lat_ts), lcc (1SP/2SP, optional k_0), aea, eqdc, tmerc, utm (zones 1-60, north/south), krovak; ellipsoid by name " +
			"(all 43 built-in names incl. sphere), a+rf, a+b or default; datum none / named (all built-in 3- and 7-parameter names, WGS84) / +towgs84 with 3 or 7 terms; false " +
			"origins, scale, units m/ft/us-ft/+to_meter, prime meridian by name or degrees; source = WGS84, or (a third of those cases) the datum-less geographic system on the WGS84 ellipsoid, or the geographic system on the destination's own datum; +axis (enu, neu, wnu, esu, wsu, end, swu) in a third of the cases; standard parallels on one side of the equator. Positions inside the usable region " +
			"(|lon-lon_0|<=3.5 deg and |lat|<=84 for tmerc/utm, |lat|<=85 for merc, within 30 deg of the parallels on the cone's side and |lon-lon_0|<=90 for conics, 47-52N 12-23E " +
			"for krovak). Source geographic system alternates between WGS84 and the system on the destination's own datum. Oracle with fresh parses and transformers for every " +
			"stage: geo->proj->geo within 1e-6 deg (lon modulo 360), then proj->geo->proj within 0.01 m in the destination unit (0.02 m when a small +towgs84 shift from WGS84 is part of the round trip; named datums with large shifts and non-WGS84 ellipsoids with a shift are always paired with the geographic system on their own datum, because a 2-D round trip cannot carry the ellipsoidal height), " +
			"no error or NaN. Non-trivial = non-default ellipsoid, or a datum, or a non-metre unit, or a position >1 deg from the central meridian. Distinct by case hash." +
			" Round 9: the innermost ring before the pole (0.0002-0.0003 degrees) is drawn three times as often; positions that pass a datum shift stay at |lat| <= 86." +
			" Round 10: one definition in ten carries +R_A; Mercator positions through a datum shift stay at |lat| <= 75." +
			" Round 12: the datum-less source also comes spelled with '+datum=none' or '+nadgrids=@null'.",
		Assumptions: []string{"positions exactly on the meridian opposite the central one are the edge of the map, not inside the usable region (an experiment with such positions showed the unchanged tree putting them on either edge after a prime-meridian shift, and Mercator refusing lon = pi + 1 ulp): they are not generated", "explicit +towgs84 terms are kept small (<=100 m, <=1 arcsec, <=5 ppm) in this check; large shifts are checked differentially against proj4js in C09"},
		Gen:         gen,
		Run:         run,
	})
}
