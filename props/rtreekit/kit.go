//go:build verif

// Package rtreekit holds the insert/delete history generator, the multiset model and the structural
// invariant walker shared by the C11 and C12 checks.
package rtreekit

import (
	"fmt"
	"math"
	"sort"

	"github.com/ctessum/geom"
	"github.com/ctessum/geom/index/rtree"
	"github.com/ctessum/geom/proj"
	"pgregory.net/rapid"
	"verif/vkit"
)

// Op is one step of a history. Indices are interpreted modulo the number of live objects, so every history is
// executable and shrinks freely.
type Op struct {
	K   string `json:"k"`             // ins | dup | del | delnear | delchain | fill | delabsent | drain | search | nn | knn | nnswap
	Box [4]int `json:"box,omitempty"` // x, y, w, h on a small integer grid (ins, search)
	Idx int    `json:"idx,omitempty"` // which live object (dup, del, delabsent), drain stride
	Qx  int    `json:"qx,omitempty"`  // query point in half units (nn, knn)
	Qy  int    `json:"qy,omitempty"`
	Kn  int    `json:"kn,omitempty"` // k for knn
	// Far k (nn, knn): the query point is multiplied by 2^k, k up to 1015: every stored object is far away, beyond 2^512
	// too far for the square of its distance to be a float64
	Far int `json:"far,omitempty"`
	// F: fractional offsets added to x, y, w, h of Box (and to the query point) in float histories
	F [4]float64 `json:"f,omitempty"`
	// Empty: the inserted object is a *Bounds without any point (geom.NewBounds()): it is stored and counted, can be
	// deleted, and intersects no query
	Empty bool `json:"empty,omitempty"`
}

// History is the pure-data case.
type History struct {
	Min  int    `json:"min"`
	Max  int    `json:"max"`
	Kind string `json:"kind"` // bounds (pointers) | point (values) | custom (comparable struct values)
	Ops  []Op   `json:"ops"`
	// Float: coordinates are not on the integer grid (Op.F carries the fractional parts)
	Float bool `json:"float,omitempty"`
	// Probe (C12 only): every delete is followed by a battery of k = 1 queries from points around the object that was
	// just removed (the place where a box that was not shrunk after the delete would mislead the pruning)
	Probe bool `json:"probe,omitempty"`
	// Wide n > 0 (C12 only): instead of Ops, the tree (fan-out Max, 66 to 128) is filled with the 4(2n+1) points
	// (+-g^i, +-g^-i), i = -n..n, in an order drawn from WideSeed - points hugging the two axes, which gives dozens of
	// leaf boxes that all reach across an axis near the origin - and k = 1 queries are issued from the axes and from
	// around the origin: nodes with more than 64 children whose boxes nearly all contain the query point
	Wide     int     `json:"wide,omitempty"`
	WideG    float64 `json:"wide_g,omitempty"`
	WideSeed uint64  `json:"wide_seed,omitempty"`
	// NaNTail n > 0 (C11 only, round 13): after the history, and after everything else has been judged, 3*Max finite
	// boxes and n boxes with a NaN coordinate are stored as *geom.Bounds pointers and the n are deleted again: Delete
	// has to find a stored object by identity whatever its box is, and Size has to follow. What a search returns for a
	// box that is not a set of points is not judged, and the structure is not looked at once such a box is in it
	NaNTail int `json:"nan_tail,omitempty"`
	// EmptyTail n > 0 (C12 only, round 13): after the history n objects without extent (geom.NewBounds() pointers: no
	// point, hence infinitely far from everything) are stored one by one, each followed by queries with k = 1, the
	// number of stored objects, and one more: they are stored objects like the others and fill the last slots
	EmptyTail int `json:"empty_tail,omitempty"`
}

// custom comparable object
type BoxObj struct {
	ID             int
	X0, Y0, X1, Y1 float64
}

func (b BoxObj) Bounds() *geom.Bounds {
	return &geom.Bounds{Min: geom.Point{X: b.X0, Y: b.Y0}, Max: geom.Point{X: b.X1, Y: b.Y1}}
}
func (b BoxObj) Similar(geom.Geom, float64) bool               { return false }
func (b BoxObj) Transform(proj.Transformer) (geom.Geom, error) { return b, nil }
func (b BoxObj) Len() int                                      { return 0 }
func (b BoxObj) Points() func() geom.Point                     { return func() geom.Point { return geom.Point{} } }

// GenHistory draws a history. queries selects which query ops are mixed in ("search" for C11, "nn" for C12).
func GenHistory(t *rapid.T, queries string) History {
	var h History
	h.Max = rapid.SampledFrom([]int{4, 4, 5, 6, 8, 8, 25, 50}).Draw(t, "max")
	h.Min = rapid.IntRange(2, h.Max/2).Draw(t, "min")
	h.Kind = rapid.SampledFrom([]string{"bounds", "bounds", "point", "custom"}).Draw(t, "kind")
	grid := rapid.SampledFrom([]int{4, 8, 20}).Draw(t, "grid")
	n := rapid.IntRange(1, 120).Draw(t, "nops")
	if rapid.IntRange(0, 5).Draw(t, "long") == 0 {
		n = rapid.IntRange(120, 400).Draw(t, "nops2")
	}
	if vkit.Tier() == "thorough" && rapid.IntRange(0, 19).Draw(t, "verylong") == 0 {
		// thorough tier: histories long enough for the fan-out 25/50 that package route uses to reach depth 3
		n = rapid.IntRange(800, 2500).Draw(t, "nops3")
		h.Max = rapid.SampledFrom([]int{25, 50, 8}).Draw(t, "bigmax")
		h.Min = rapid.IntRange(2, h.Max/2).Draw(t, "bigmin")
		grid = 60
	}
	// tall: a narrow fan-out, a build phase of 60-200 inserts and 'delnear' steps (the 2-10 objects nearest to a stored
	// one deleted one after the other, which empties whole subtrees and makes chains of nodes underflow in one Delete) and
	// 'delchain' steps (the Delete that makes the longest chain of minimal nodes underflow). filler: a third of them, with
	// a smaller build phase and 'fill' steps (see Model.fill) each followed by a 'delchain' step.
	tall := rapid.IntRange(0, 3).Draw(t, "tall") == 0
	filler := tall && rapid.IntRange(0, 2).Draw(t, "filler") == 0
	if tall {
		h.Max = rapid.SampledFrom([]int{4, 4, 4, 5, 6}).Draw(t, "tallmax")
		if filler {
			h.Max = 4
		}
		h.Min = 2
		grid = 40
		lo, hi := 60, 200
		if filler {
			lo, hi = 20, 90 // height 3-4: what 'fill' can bring to the state it aims at with a few hundred insertions
			if n > 40 {
				n = 40
			}
		}
		for i, nb := 0, rapid.IntRange(lo, hi).Draw(t, "tallbuild"); i < nb; i++ {
			h.Ops = append(h.Ops, Op{K: "ins", Box: [4]int{rapid.IntRange(0, grid).Draw(t, "tx"), rapid.IntRange(0, grid).Draw(t, "ty"), rapid.IntRange(0, 2).Draw(t, "tw"), rapid.IntRange(0, 2).Draw(t, "th")}})
		}
	}
	// phases make growth followed by shrinkage likely: bias changes between insert-heavy and delete-heavy; phase 3 piles
	// coincident and concentric boxes on one hot spot (a node whose entries all share a point, one nested in all others)
	phase := rapid.SampledFrom([]int{0, 0, 0, 3}).Draw(t, "phase0")
	hx, hy := rapid.IntRange(0, grid).Draw(t, "hotx"), rapid.IntRange(0, grid).Draw(t, "hoty")
	hotWide := rapid.Bool().Draw(t, "hotwide")
	hotOrder, hotCount := rapid.SampledFrom([]int{0, 0, 1, 2, 3}).Draw(t, "hotorder"), 0
	h.Float = rapid.IntRange(0, 2).Draw(t, "float") == 1
	// one history in twelve stores many objects without any point (whole nodes of them)
	emptyHeavy := rapid.IntRange(0, 11).Draw(t, "emptyheavy") == 7
	var lastNN *Op
	for i := 0; i < n; i++ {
		stay := 24
		if phase == 3 {
			stay = 70
		}
		if rapid.IntRange(0, stay).Draw(t, "newphase") == 0 {
			phase = rapid.IntRange(0, 3).Draw(t, "phase")
		}
		var kinds []string
		switch phase {
		case 0:
			kinds = []string{"ins", "ins", "ins", "ins", "dup", "del", "q", "delabsent"}
		case 1:
			kinds = []string{"del", "del", "del", "del", "ins", "q", "delabsent", "drain"}
		case 3:
			kinds = []string{"hot", "hot", "hot", "hot", "hot", "hot", "hot", "hot", "q", "del"}
		default:
			kinds = []string{"ins", "del", "ins", "del", "dup", "q", "q", "delabsent"}
		}
		if tall {
			kinds = append(kinds, "delnear", "delchain", "delchain", "ins", "ins")
		}
		if filler {
			kinds = append(kinds, "fill")
		}
		k := rapid.SampledFrom(kinds).Draw(t, "op")
		op := Op{K: k}
		repeated := false
		switch k {
		case "delnear":
			op.Idx = rapid.IntRange(0, 1000).Draw(t, "idx")
			op.Kn = rapid.IntRange(2, 10).Draw(t, "nearcount")
		case "delchain":
			op.Idx = rapid.IntRange(0, 1000).Draw(t, "idx")
		case "fill":
			// fill, then the Delete it prepares
			op.Idx = rapid.IntRange(0, 1000).Draw(t, "idx")
			op.Kn = rapid.SampledFrom([]int{300, 300, 300, 60, 15}).Draw(t, "fillcap")
			h.Ops = append(h.Ops, op)
			op = Op{K: "delchain", Idx: rapid.IntRange(0, 1000).Draw(t, "idx")}
		case "hot":
			r := rapid.SampledFrom([]int{0, 0, 0, 1, 2, 3, 5}).Draw(t, "hotr")
			if hotWide {
				r = rapid.IntRange(0, 45).Draw(t, "hotrwide") // many distinct sizes: strictly nested boxes, no two alike
			}
			if hotOrder != 0 {
				// every box of the hot spot of another size than all the others (the smallest one is unique): growing,
				// shrinking, or in a scrambled order
				hotCount++
				switch hotOrder {
				case 1:
					r = hotCount
				case 2:
					r = 90 - hotCount%90
				default:
					r = 1 + (hotCount*37)%89
				}
			}
			op.K, op.Box = "ins", [4]int{hx - r, hy - r, 2 * r, 2 * r}
		case "ins":
			if h.Kind == "bounds" && queries == "search" && (rapid.IntRange(0, 39).Draw(t, "emptyobj") == 17 || emptyHeavy && rapid.IntRange(0, 2).Draw(t, "emptyobj2") == 1) { // not for nearest-neighbour histories: an object without points has no distance
				op.Empty = true
			}
			op.Box = [4]int{rapid.IntRange(0, grid).Draw(t, "x"), rapid.IntRange(0, grid).Draw(t, "y"), rapid.IntRange(0, 3).Draw(t, "w"), rapid.IntRange(0, 3).Draw(t, "h")}
		case "dup", "del", "delabsent":
			op.Idx = rapid.IntRange(0, 1000).Draw(t, "idx")
		case "drain":
			op.Idx = rapid.IntRange(1, 7).Draw(t, "stride")
		case "q":
			if queries == "search" {
				op.K = "search"
				op.Box = [4]int{rapid.IntRange(-1, grid+1).Draw(t, "qx"), rapid.IntRange(-1, grid+1).Draw(t, "qy"), rapid.IntRange(0, grid).Draw(t, "qw"), rapid.IntRange(0, grid).Draw(t, "qh")}
			} else {
				op.K = rapid.SampledFrom([]string{"nn", "nn", "knn", "knn", "knn", "nnrep", "nnswap"}).Draw(t, "nnkind")
				op.Qx, op.Qy = rapid.IntRange(-4, 2*grid+8).Draw(t, "qx"), rapid.IntRange(-4, 2*grid+8).Draw(t, "qy")
				op.Kn = rapid.IntRange(1, 12).Draw(t, "k")
				if rapid.IntRange(0, 9).Draw(t, "farq") == 0 {
					op.Far = rapid.SampledFrom([]int{300, 500, 511, 512, 513, 600, 900, 1015}).Draw(t, "far")
				}
				switch op.K {
				case "nnrep":
					// the point of the last k = 1 query once more, bit for bit (an answer remembered from then must not
					// survive the updates in between)
					op.K = "nn"
					if lastNN != nil {
						op, repeated = *lastNN, true
					}
				case "nnswap":
					// k = 1 query, an object put right on the query point, another object deleted, the same query again
					op.Idx = rapid.IntRange(0, 1000).Draw(t, "idx")
					op.Far = 0
				}

			}
		}
		if h.Float && (op.K == "ins" || op.K == "search" || op.K == "nn" || op.K == "knn" || op.K == "nnswap") && !repeated {
			for j := range op.F {
				op.F[j] = rapid.Float64Range(0, 1).Draw(t, "frac")
			}
			if op.Box[2] == 0 && rapid.Bool().Draw(t, "thinw") {
				op.F[2] = 0 // zero-width boxes stay zero-width
			}
			if op.Box[3] == 0 && rapid.Bool().Draw(t, "thinh") {
				op.F[3] = 0
			}
		}
		if op.K == "nn" {
			cp := op
			lastNN = &cp
		}
		h.Ops = append(h.Ops, op)
	}
	return h
}

// Model is the brute-force reference: the multiset of stored objects.
type Model struct {
	Tree *rtree.Rtree
	Live []geom.Geom
	Kind string
	next int
}

func NewModel(h History) *Model {
	return &Model{Tree: rtree.NewTree(h.Min, h.Max), Kind: h.Kind}
}

func (m *Model) mk(b [4]int, f [4]float64) geom.Geom {
	x0, y0 := float64(b[0])+f[0], float64(b[1])+f[1]
	x1, y1 := x0+float64(b[2])+f[2], y0+float64(b[3])+f[3]
	m.next++
	switch m.Kind {
	case "point":
		return geom.Point{X: x0, Y: y0}
	case "custom":
		return BoxObj{ID: m.next % 3, X0: x0, Y0: y0, X1: x1, Y1: y1} // few ids: equal values do occur
	}
	return &geom.Bounds{Min: geom.Point{X: x0, Y: y0}, Max: geom.Point{X: x1, Y: y1}}
}

// mkAt makes an object of the history's kind that occupies the single position (x, y).
func (m *Model) mkAt(x, y float64) geom.Geom {
	m.next++
	switch m.Kind {
	case "point":
		return geom.Point{X: x, Y: y}
	case "custom":
		return BoxObj{ID: m.next % 3, X0: x, Y0: y, X1: x, Y1: y}
	}
	return &geom.Bounds{Min: geom.Point{X: x, Y: y}, Max: geom.Point{X: x, Y: y}}
}

// fill is the structure-directed step behind 'one Delete that makes a chain of nodes underflow while everything else
// is full': it reads the verif snapshot, sets aside the child of the root that holds a leaf whose ancestors below the
// root all hold just the minimum number of entries, and inserts point objects placed inside chosen leaves until every
// other node, the root included, holds the maximum number of entries (or Kn insertions were made). Re-insertions made
// by the following Delete then split nodes all the way up, the root included.
func (m *Model) fill(op Op) {
	t := m.Tree
	area := func(b geom.Bounds) float64 { return (b.Max.X - b.Min.X) * (b.Max.Y - b.Min.Y) }
	// land predicts the nodes an object at (x, y) passes on its way to a leaf (least enlargement, then least area, first
	// entry on ties)
	land := func(root *rtree.VerifNode, x, y float64) []*rtree.VerifNode {
		path := []*rtree.VerifNode{root}
		n := root
		for !n.Leaf {
			bi, bd := 0, math.MaxFloat64
			for i, b := range n.Boxes {
				u := b
				u.Min.X, u.Min.Y = math.Min(u.Min.X, x), math.Min(u.Min.Y, y)
				u.Max.X, u.Max.Y = math.Max(u.Max.X, x), math.Max(u.Max.Y, y)
				if d := area(u) - area(b); d < bd || (d == bd && area(b) < area(n.Boxes[bi])) {
					bi, bd = i, d
				}
			}
			n = n.Children[bi]
			path = append(path, n)
		}
		return path
	}
	for it := 0; it < op.Kn; it++ {
		root, _ := t.VerifSnapshot()
		if root == nil || root.Leaf {
			return
		}
		// the child of the root to leave alone
		var chain func(n *rtree.VerifNode) bool
		chain = func(n *rtree.VerifNode) bool {
			if len(n.Boxes) > t.MinChildren {
				return false
			}
			if n.Leaf {
				return len(n.Objs) > 0
			}
			for _, c := range n.Children {
				if chain(c) {
					return true
				}
			}
			return false
		}
		var keep *rtree.VerifNode
		for _, c := range root.Children {
			if chain(c) {
				keep = c
				break
			}
		}
		if keep == nil {
			return
		}
		// the lowest node outside keep that is not full
		var low *rtree.VerifNode
		var find func(n *rtree.VerifNode)
		find = func(n *rtree.VerifNode) {
			if n == keep {
				return
			}
			if len(n.Boxes) < t.MaxChildren && (low == nil || n.Level < low.Level) {
				low = n
			}
			for _, c := range n.Children {
				find(c)
			}
		}
		find(root)
		if low == nil {
			return
		}
		// the leaves below it (all of them full unless it is a leaf itself)
		var leaves []*rtree.VerifNode
		var collect func(n *rtree.VerifNode)
		collect = func(n *rtree.VerifNode) {
			if n.Leaf {
				leaves = append(leaves, n)
			}
			for _, c := range n.Children {
				if c != keep {
					collect(c)
				}
			}
		}
		collect(low)
		// candidate positions: inside the box of a leaf below low (between the centres of two of its objects, at a
		// fraction that changes with every insertion, so that positions do not pile up). A candidate is acceptable when
		// it is predicted to stay out of keep and to pass a node that is not full, so that the root is not split;
		// the first acceptable one that lands in the leaf it was made for is taken, else the first acceptable one.
		frac := math.Mod(float64(it+1)*0.6180339887498949+float64(op.Idx%97)/97, 1)
		have, hx, hy := false, 0.0, 0.0
		placed := false
		for li := 0; li < len(leaves) && !placed; li++ {
			leaf := leaves[(li+op.Idx+it)%len(leaves)]
			nb := len(leaf.Boxes)
			for a := 0; a < nb && !placed; a++ {
				b0, b1 := leaf.Boxes[a], leaf.Boxes[(a+1+it%3)%nb]
				x := (b0.Min.X+b0.Max.X)/2*(1-frac) + (b1.Min.X+b1.Max.X)/2*frac
				y := (b0.Min.Y+b0.Max.Y)/2*(1-frac) + (b1.Min.Y+b1.Max.Y)/2*frac
				if x != x || y != y || math.IsInf(x, 0) || math.IsInf(y, 0) {
					continue
				}
				path := land(root, x, y)
				ok := path[1] != keep
				room := false
				for _, n := range path {
					if len(n.Boxes) < t.MaxChildren {
						room = true
					}
				}
				if !ok || !room {
					continue
				}
				if path[len(path)-1] == leaf {
					hx, hy, have, placed = x, y, true, true
				} else if !have {
					hx, hy, have = x, y, true
				}
			}
		}
		if !have {
			return
		}
		o := m.mkAt(hx, hy)
		t.Insert(o)
		m.Live = append(m.Live, o)
	}
}

// Absent returns an object that is not stored but looks like stored object o.
func (m *Model) absent(o geom.Geom) (geom.Geom, bool) {
	switch v := o.(type) {
	case *geom.Bounds:
		return v.Copy(), true // same box, different identity
	case geom.Point:
		c := geom.Point{X: v.X + 0.25, Y: v.Y}
		for _, l := range m.Live {
			if l == geom.Geom(c) {
				return nil, false
			}
		}
		return c, true
	case BoxObj:
		c := v
		c.ID = 99
		return c, true
	}
	return nil, false
}

func Intersects(a, b *geom.Bounds) bool {
	return a.Min.X <= b.Max.X && b.Min.X <= a.Max.X && a.Min.Y <= b.Max.Y && b.Min.Y <= a.Max.Y
}

// BoxDist is the distance from p to the closed box.
func BoxDist(p geom.Point, b *geom.Bounds) float64 {
	dx := math.Max(math.Max(b.Min.X-p.X, 0), p.X-b.Max.X)
	dy := math.Max(math.Max(b.Min.Y-p.Y, 0), p.Y-b.Max.Y)
	return math.Hypot(dx, dy)
}

// Stats describes the structure (from the verif snapshot).
type Stats struct {
	Nodes, Depth int
}

// CheckStructure evaluates the balance / envelope / fan-out clauses on the snapshot.
func CheckStructure(tree *rtree.Rtree) (Stats, string) {
	root, _ := tree.VerifSnapshot()
	var st Stats
	leafDepth := -1
	var walk func(n *rtree.VerifNode, depth int) (*geom.Bounds, string)
	walk = func(n *rtree.VerifNode, depth int) (*geom.Bounds, string) {
		st.Nodes++
		if n == nil {
			return nil, "nil child node"
		}
		if len(n.Boxes) > tree.MaxChildren {
			return nil, fmt.Sprintf("node at depth %d has %d entries, maximum fan-out is %d", depth, len(n.Boxes), tree.MaxChildren)
		}
		var env *geom.Bounds
		ext := func(b geom.Bounds) {
			if env == nil {
				c := b
				env = &c
				return
			}
			env.Min.X, env.Min.Y = math.Min(env.Min.X, b.Min.X), math.Min(env.Min.Y, b.Min.Y)
			env.Max.X, env.Max.Y = math.Max(env.Max.X, b.Max.X), math.Max(env.Max.Y, b.Max.Y)
		}
		if n.Leaf {
			if leafDepth == -1 {
				leafDepth = depth
			} else if leafDepth != depth {
				return nil, fmt.Sprintf("leaves at depths %d and %d", leafDepth, depth)
			}
			for i, o := range n.Objs {
				if o == nil {
					return nil, "nil object in a leaf entry"
				}
				if ob := o.Bounds(); n.Boxes[i] != *ob {
					return nil, fmt.Sprintf("leaf entry box %+v differs from its object's box %+v", n.Boxes[i], *ob)
				}
				ext(n.Boxes[i])
			}
			return env, ""
		}
		if len(n.Children) != len(n.Boxes) {
			return nil, "non-leaf entry without child"
		}
		for i, c := range n.Children {
			sub, msg := walk(c, depth+1)
			if msg != "" {
				return nil, msg
			}
			if sub == nil {
				return nil, fmt.Sprintf("empty subtree below a non-leaf entry at depth %d", depth)
			}
			if n.Boxes[i] != *sub {
				return nil, fmt.Sprintf("entry box %+v at depth %d is not the envelope %+v of its subtree", n.Boxes[i], depth, *sub)
			}
			ext(n.Boxes[i])
		}
		return env, ""
	}
	_, msg := walk(root, 1)
	if leafDepth == -1 {
		leafDepth = 1
	}
	st.Depth = leafDepth
	if msg == "" && tree.Depth() != leafDepth {
		msg = fmt.Sprintf("Depth() = %d but the leaves are at depth %d", tree.Depth(), leafDepth)
	}
	return st, msg
}

// Stale is an entry of a non-leaf node whose stored box is not the envelope of the subtree below it.
type Stale struct {
	Stored, True geom.Bounds
}

// StaleBoxes lists the non-leaf entries whose box differs from the envelope of their subtree (from the verif snapshot).
func StaleBoxes(tree *rtree.Rtree) []Stale {
	root, _ := tree.VerifSnapshot()
	var out []Stale
	var walk func(n *rtree.VerifNode) *geom.Bounds
	walk = func(n *rtree.VerifNode) *geom.Bounds {
		if n == nil {
			return nil
		}
		var env *geom.Bounds
		ext := func(b geom.Bounds) {
			if env == nil {
				c := b
				env = &c
				return
			}
			env.Min.X, env.Min.Y = math.Min(env.Min.X, b.Min.X), math.Min(env.Min.Y, b.Min.Y)
			env.Max.X, env.Max.Y = math.Max(env.Max.X, b.Max.X), math.Max(env.Max.Y, b.Max.Y)
		}
		if n.Leaf {
			for _, b := range n.Boxes {
				ext(b)
			}
			return env
		}
		for i, c := range n.Children {
			sub := walk(c)
			if sub != nil && i < len(n.Boxes) && n.Boxes[i] != *sub {
				out = append(out, Stale{Stored: n.Boxes[i], True: *sub})
			}
			if i < len(n.Boxes) {
				ext(n.Boxes[i])
			}
		}
		return env
	}
	walk(root)
	return out
}

// DeleteLive removes live object i from tree and model (used by checks that add deletes of their own to a history).
func (m *Model) DeleteLive(i int) bool {
	o := m.Live[i]
	if !m.Tree.Delete(o) {
		return false
	}
	m.Live = append(m.Live[:i], m.Live[i+1:]...)
	return true
}

// Dump is a canonical text form of the structure (to detect any change by a failed Delete).
func Dump(tree *rtree.Rtree) string {
	root, h := tree.VerifSnapshot()
	var s []byte
	var walk func(n *rtree.VerifNode)
	walk = func(n *rtree.VerifNode) {
		if n == nil {
			s = append(s, "nil"...)
			return
		}
		s = append(s, fmt.Sprintf("(%d %v", n.Level, n.Leaf)...)
		for i, b := range n.Boxes {
			s = append(s, fmt.Sprintf(" [%v %v %v %v]", b.Min.X, b.Min.Y, b.Max.X, b.Max.Y)...)
			if n.Leaf {
				s = append(s, fmt.Sprintf("%p%v", n.Objs[i], n.Objs[i])...)
			} else {
				walk(n.Children[i])
			}
		}
		s = append(s, ')')
	}
	walk(root)
	return fmt.Sprintf("h=%d size=%d %s", h, tree.Size(), s)
}

// Events observed while replaying a history (for the non-triviality rule).
type Events struct {
	Underflow, RootCollapse, Drained, Refilled bool
	MaxDepth, MaxSize                          int
}

// Step applies a mutating op to tree and model. It returns a violation message (C11 clauses) or "".
// check enables the expensive C11 oracles (structure, absent-delete neutrality).
func (m *Model) Step(op Op, ev *Events, check bool) string {
	t := m.Tree
	switch op.K {
	case "ins":
		o := m.mk(op.Box, op.F)
		if op.Empty && m.Kind == "bounds" {
			m.next++
			o = geom.NewBounds()
		}
		t.Insert(o)
		m.Live = append(m.Live, o)
		if ev.Drained {
			ev.Refilled = true
		}
	case "dup":
		if len(m.Live) == 0 {
			return ""
		}
		o := m.Live[op.Idx%len(m.Live)]
		t.Insert(o)
		m.Live = append(m.Live, o)
	case "del":
		if len(m.Live) == 0 {
			return ""
		}
		return m.del(op.Idx%len(m.Live), ev, check)
	case "delchain":
		// delete an object of the leaf that hangs on the longest chain of ancestors holding just the minimum number of
		// entries (read from the verif snapshot): the one Delete that makes a whole chain of nodes underflow. Idx picks among
		// the leaves with the longest chain.
		if len(m.Live) == 0 {
			return ""
		}
		root, _ := t.VerifSnapshot()
		var best []*rtree.VerifNode
		bestLen := -1
		var walk func(n *rtree.VerifNode, chain int)
		walk = func(n *rtree.VerifNode, chain int) {
			if n == nil {
				return
			}
			c := 0
			if len(n.Boxes) <= t.MinChildren && n != root {
				c = chain + 1
			}
			if n.Leaf {
				if len(n.Objs) > 0 {
					if c > bestLen {
						best, bestLen = nil, c
					}
					if c == bestLen {
						best = append(best, n)
					}
				}
				return
			}
			for _, ch := range n.Children {
				walk(ch, c)
			}
		}
		walk(root, 0)
		if len(best) == 0 {
			return ""
		}
		leaf := best[op.Idx%len(best)]
		target := leaf.Objs[op.Idx%len(leaf.Objs)]
		for i, o := range m.Live {
			if o == target {
				return m.del(i, ev, check)
			}
		}
		return ""
	case "fill":
		m.fill(op)
	case "delnear":
		if len(m.Live) == 0 {
			return ""
		}
		c := m.Live[op.Idx%len(m.Live)].Bounds()
		cx, cy := (c.Min.X+c.Max.X)/2, (c.Min.Y+c.Max.Y)/2
		for k := 0; k < op.Kn && len(m.Live) > 0; k++ {
			best, bd := 0, math.Inf(1)
			for i, o := range m.Live {
				b := o.Bounds()
				if d := math.Hypot((b.Min.X+b.Max.X)/2-cx, (b.Min.Y+b.Max.Y)/2-cy); d < bd || (d != d && bd == math.Inf(1)) {
					best, bd = i, d
				}
			}
			if msg := m.del(best, ev, check); msg != "" {
				return msg
			}
		}
	case "delabsent":
		var o geom.Geom
		ok := false
		if len(m.Live) > 0 {
			o, ok = m.absent(m.Live[op.Idx%len(m.Live)])
		}
		if !ok {
			o = &geom.Bounds{Min: geom.Point{X: 1, Y: 1}, Max: geom.Point{X: 2, Y: 2}}
		}
		before := ""
		if check {
			before = Dump(t)
		}
		if t.Delete(o) {
			return fmt.Sprintf("Delete of an object that is not stored (%v) returned true", o)
		}
		if check {
			if after := Dump(t); after != before {
				return "Delete of an absent object changed the tree"
			}
		}
	case "drain":
		for len(m.Live) > 0 {
			if msg := m.del((op.Idx*7+len(m.Live))%len(m.Live), ev, check); msg != "" {
				return msg
			}
		}
	}
	if s := t.Size(); s > ev.MaxSize {
		ev.MaxSize = s
	}
	return ""
}

func (m *Model) del(i int, ev *Events, check bool) string {
	t := m.Tree
	o := m.Live[i]
	var before Stats
	if check {
		before, _ = CheckStructure(t)
	}
	if !t.Delete(o) {
		return fmt.Sprintf("Delete of stored object %v returned false (size %d)", o, len(m.Live))
	}
	m.Live = append(m.Live[:i], m.Live[i+1:]...)
	if check {
		after, msg := CheckStructure(t)
		if msg != "" {
			return "after Delete: " + msg
		}
		if after.Nodes < before.Nodes {
			ev.Underflow = true
		}
		if after.Depth < before.Depth {
			ev.RootCollapse = true
		}
	}
	if len(m.Live) == 0 {
		ev.Drained = true
	}
	return ""
}

// Count returns the multiset of objects as a map.
func Count(objs []geom.Geom) map[geom.Geom]int {
	m := map[geom.Geom]int{}
	for _, o := range objs {
		m[o]++
	}
	return m
}

// SortedDists returns the sorted box distances from p to all live objects.
func (m *Model) SortedDists(p geom.Point) []float64 {
	d := make([]float64, len(m.Live))
	for i, o := range m.Live {
		d[i] = BoxDist(p, o.Bounds())
	}
	sort.Float64s(d)
	return d
}
