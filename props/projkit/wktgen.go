package projkit

import (
	"fmt"
	"strings"
)

// WKTOpts selects the dialect of the rendered OGC WKT (.prj) text.
type WKTOpts struct {
	ESRI      bool // ESRI parameter/name spelling (Central_Meridian, Latitude_Of_Origin, D_ prefix) instead of OGC/GDAL
	Authority bool // add AUTHORITY clauses (GDAL style)
	UnitFirst bool // linear UNIT right after GEOGCS (GDAL) instead of last (ESRI)
	Reverse   bool // PARAMETER clauses in reverse order
	Axis      bool // trailing AXIS clauses
	// Sep: white space written after every comma: "" (the compact one-line form), " " or "\n    " (pretty-printed)
	Sep string
	// Degree: how the angular unit's factor is written in the GEOGCS ("" = 0.017453292519943295; writers differ in the
	// number of digits: 0.0174532925199433, 0.01745329251994328, 0.0174532925199, 0.01745329252, 0.0174533)
	Degree string
	// Names: how the free-text names are written. 0: plain (no commas anywhere); 1: spheroid names as the tables have
	// them, commas included ("GRS 1980(IUGG, 1980)"), a comma in the name of a spheroid given by (a, 1/f) and in the
	// PROJCS and GEOGCS names; 2: one-character GEOGCS, PROJCS and (for datums given by TOWGS84) DATUM names; 3: for
	// datums given by TOWGS84, a DATUM name from RealDatumNames
	Names int `json:"names,omitempty"`
}

// DegreeSpellings are the ways of writing pi/180 met in WKT files.
var DegreeSpellings = []string{"", "0.0174532925199433", "0.01745329251994328", "0.0174532925199", "0.01745329252", "0.0174533"}

var wktProjName = map[string]string{"merc": "Mercator_1SP", "lcc": "Lambert_Conformal_Conic_2SP", "aea": "Albers_Conic_Equal_Area",
	"eqdc": "Equidistant_Conic", "tmerc": "Transverse_Mercator"}

// WKTDatumNames maps a built-in datum key to a DATUM name both notations know.
var WKTDatumNames = map[string][]string{
	"WGS84":   {"WGS_1984", "D_WGS_1984"},
	"ch1903":  {"CH1903", "D_CH1903"},
	"osgb36":  {"OSGB_1936", "D_OSGB_1936", "osgb36"},
	"nzgd49":  {"New_Zealand_Geodetic_Datum_1949", "D_New_Zealand_1949", "nzgd49"},
	"potsdam": {"Potsdam"}, "hermannskogel": {"Hermannskogel"}, "ggrs87": {"GGRS87"}, "rnb72": {"Reseau_National_Belge_1972", "rnb72"},
	"ire65": {"ire65"}, "nad83": {"nad83"},
}

// RealDatumNames: names of datums that are NOT in the library's table, as GDAL and ESRI write them.
var RealDatumNames = []string{"World_Geodetic_System_1972", "WGS_1972", "World_Geodetic_System_1966", "WGS_1972_Transit_Broadcast_Ephemeris",
	"North_American_Datum_1927", "NAD83_High_Accuracy_Reference_Network", "European_Datum_1950", "Pulkovo_1942", "Tokyo", "OSGB_1970_SN",
	"Potsdam_Rauenberg_1950_DHDN", "CH1903+", "Geocentric_Datum_of_Australia_1994", "Hermannskogel_Datum_MGI"}

// WKT renders d (one of merc, lcc 2SP, aea, eqdc, tmerc, longlat with Greenwich prime meridian and enu axes) as OGC WKT.
// Linear parameters are written in the declared linear unit, angular ones in degrees. variant picks the datum name spelling.
// WKT renders the definition as OGC WKT. White space after commas (o.Sep) is insignificant in the grammar.
func (d Def) WKT(o WKTOpts, variant int) string {
	s := d.wkt(o, variant)
	if o.Sep != "" {
		s = strings.ReplaceAll(s, ",", ","+o.Sep) // (a comma inside a free-text name gets the white space too: part of the name)
	}
	return s
}

func (d Def) wkt(o WKTOpts, variant int) string {
	a, es := d.Ellipsoid()
	_ = es
	var rfText string
	sname := "Custom_Spheroid"
	switch {
	case d.DatumKind == "name" || d.EllpsKind == "name":
		name := d.Ellps
		if d.DatumKind == "name" {
			name = T.Datums[strings.ToLower(d.Datum)].Ellipse
		}
		e, ok := T.Ellipsoids[name]
		if !ok {
			name, e = "WGS84", T.Ellipsoids["WGS84"]
		}
		sname = e.EllipseName
		if o.Names != 1 {
			sname = strings.ReplaceAll(sname, ",", "")
		}
		sname = strings.ReplaceAll(sname, "\"", "")
		if e.Rf != 0 {
			rfText = f(e.Rf)
		} else if e.B != 0 && e.B != e.A {
			rfText = f(e.A / (e.A - e.B))
		} else {
			rfText = "0"
		}
	case d.EllpsKind == "arf" || d.EllpsKind == "ab":
		rfText = f(d.Rf)
		if o.Names == 1 {
			sname = "Custom Spheroid (a, 1/f)"
		}
	default:
		e := T.Ellipsoids["WGS84"]
		sname, rfText = "WGS 84", f(e.Rf)
	}
	dname := "Custom_Datum"
	tow := ""
	switch d.DatumKind {
	case "name":
		names := WKTDatumNames[d.Datum]
		if len(names) == 0 {
			names = []string{d.Datum}
		}
		dname = names[variant%len(names)]
	case "towgs":
		s := make([]string, len(d.Towgs))
		for i, v := range d.Towgs {
			s[i] = f(v)
		}
		tow = ",TOWGS84[" + strings.Join(s, ",") + "]"
	}
	if o.ESRI && !strings.HasPrefix(dname, "D_") && d.DatumKind != "name" {
		dname = "D_" + dname
	}
	gname, pcsname := "GCS_Generated", "Generated"
	switch o.Names {
	case 1:
		gname, pcsname = "Generated, geographic", "Generated / zone 3 (E,N)"
	case 2:
		gname, pcsname = "G", "P"
		if d.DatumKind != "name" {
			dname = "D"
		}
	case 3:
		// the names that real files give to datums other than the registered ones (their shifts come from the TOWGS84
		// clause): some of them begin like, or contain, the name of a registered datum
		if d.DatumKind != "name" {
			dname = RealDatumNames[variant%len(RealDatumNames)]
		}
	}
	auth := func(code string) string {
		if o.Authority {
			return fmt.Sprintf(",AUTHORITY[\"EPSG\",\"%s\"]", code)
		}
		return ""
	}
	deg := o.Degree
	if deg == "" {
		deg = "0.017453292519943295"
	}
	geog := fmt.Sprintf("GEOGCS[\"%s\",DATUM[\"%s\",SPHEROID[\"%s\",%s,%s%s]%s%s],PRIMEM[\"Greenwich\",0%s],UNIT[\"Degree\",%s%s]%s]",
		gname, dname, sname, f(a), rfText, auth("7030"), tow, auth("6326"), auth("8901"), deg, auth("9122"), auth("4326"))
	if d.Proj == "longlat" {
		return geog
	}
	u := d.UnitToMeter()
	uname := "Meter"
	switch {
	case d.Units == "ft" || u == 0.3048:
		uname = "Foot"
	case d.Units == "us-ft":
		uname = "Foot_US"
	case u != 1:
		uname = "Custom_Unit"
	}
	if !o.ESRI && uname == "Meter" {
		uname = "metre"
	}
	unit := fmt.Sprintf("UNIT[\"%s\",%s%s]", uname, f(u), auth("9001"))
	nm := func(ogc, esri string) string {
		if o.ESRI {
			return esri
		}
		return ogc
	}
	type par struct {
		name string
		val  float64
	}
	var ps []par
	fe, fn := par{nm("false_easting", "False_Easting"), d.X0 / u}, par{nm("false_northing", "False_Northing"), d.Y0 / u}
	switch d.Proj {
	case "merc":
		ps = []par{{nm("central_meridian", "Central_Meridian"), d.Lon0}, {nm("scale_factor", "Scale_Factor"), d.K0}, fe, fn}
	case "tmerc":
		ps = []par{{nm("latitude_of_origin", "Latitude_Of_Origin"), d.Lat0}, {nm("central_meridian", "Central_Meridian"), d.Lon0}, {nm("scale_factor", "Scale_Factor"), d.K0}, fe, fn}
	case "lcc":
		ps = []par{{nm("standard_parallel_1", "Standard_Parallel_1"), d.Lat1}, {nm("standard_parallel_2", "Standard_Parallel_2"), d.Lat2},
			{nm("latitude_of_origin", "Latitude_Of_Origin"), d.Lat0}, {nm("central_meridian", "Central_Meridian"), d.Lon0}, fe, fn}
	case "aea", "eqdc":
		ps = []par{{nm("standard_parallel_1", "Standard_Parallel_1"), d.Lat1}, {nm("standard_parallel_2", "Standard_Parallel_2"), d.Lat2},
			{nm("latitude_of_center", "Latitude_Of_Origin"), d.Lat0}, {nm("longitude_of_center", "Central_Meridian"), d.Lon0}, fe, fn}
	}
	if o.Reverse {
		for i, j := 0, len(ps)-1; i < j; i, j = i+1, j-1 {
			ps[i], ps[j] = ps[j], ps[i]
		}
	}
	var sb strings.Builder
	sb.WriteString("PROJCS[\"" + pcsname + "\"," + geog)
	if o.UnitFirst {
		sb.WriteString("," + unit)
	}
	pname := wktProjName[d.Proj]
	if o.ESRI && d.Proj == "aea" && variantESRIAlbers(variant) {
		pname = "Albers"
	}
	sb.WriteString(fmt.Sprintf(",PROJECTION[\"%s\"]", pname))
	for _, p := range ps {
		sb.WriteString(fmt.Sprintf(",PARAMETER[\"%s\",%s]", p.name, f(p.val)))
	}
	if !o.UnitFirst {
		sb.WriteString("," + unit)
	}
	if o.Authority {
		sb.WriteString(",AUTHORITY[\"EPSG\",\"32767\"]")
	}
	if o.Axis {
		sb.WriteString(",AXIS[\"Easting\",EAST],AXIS[\"Northing\",NORTH]")
	}
	sb.WriteString("]")
	return sb.String()
}

func variantESRIAlbers(v int) bool { return v%2 == 1 }
