package projkit

import (
	"bufio"
	"encoding/json"
	"fmt"
	"os"
	"os/exec"
	"path/filepath"
	"sync"

	"verif/vkit"
)

// Oracle is a persistent `node ref/proj4js_oracle.js` child answering NDJSON requests with the vendored proj4js 2.3.12.
type Oracle struct {
	mu  sync.Mutex
	cmd *exec.Cmd
	in  *bufio.Writer
	out *bufio.Reader
	id  int
}

func findNode() string {
	if p := os.Getenv("VERIF_NODE"); p != "" {
		return p
	}
	if p, err := exec.LookPath("node"); err == nil {
		return p
	}
	cands, _ := filepath.Glob("/root/.nvm/versions/node/*/bin/node")
	cands = append(cands, "/usr/bin/node", "/usr/local/bin/node")
	for _, c := range cands {
		if st, err := os.Stat(c); err == nil && !st.IsDir() {
			return c
		}
	}
	return ""
}

var (
	oracleOnce sync.Once
	oracle     *Oracle
	oracleErr  error
)

// GetOracle starts the oracle once; it returns nil (and the reason) when node or the proj4js sources are unavailable.
func GetOracle() (*Oracle, error) {
	oracleOnce.Do(func() {
		if os.Getenv("VERIF_NO_NODE") != "" {
			oracleErr = fmt.Errorf("disabled by VERIF_NO_NODE")
			return
		}
		node := findNode()
		if node == "" {
			oracleErr = fmt.Errorf("node not found")
			return
		}
		dir := filepath.Join(vkit.VerifDir(), "ref")
		cmd := exec.Command(node, filepath.Join(dir, "proj4js_oracle.js"))
		cmd.Env = append(os.Environ(), "NODE_PATH="+filepath.Join(dir, "node_modules"))
		cmd.Stderr = os.Stderr
		w, err := cmd.StdinPipe()
		if err != nil {
			oracleErr = err
			return
		}
		r, err := cmd.StdoutPipe()
		if err != nil {
			oracleErr = err
			return
		}
		if err := cmd.Start(); err != nil {
			oracleErr = err
			return
		}
		o := &Oracle{cmd: cmd, in: bufio.NewWriter(w), out: bufio.NewReaderSize(r, 1<<20)}
		// smoke test
		if _, _, err := o.Transform("+proj=longlat +datum=WGS84", "+proj=utm +zone=32 +datum=WGS84", [][2]float64{{9, 48}}); err != nil {
			oracleErr = fmt.Errorf("oracle smoke test: %v", err)
			cmd.Process.Kill()
			return
		}
		oracle = o
	})
	return oracle, oracleErr
}

type jsReply struct {
	ID     int                    `json:"id"`
	Pts    []*[2]float64          `json:"pts"`
	Errs   []*string              `json:"errs"`
	Err    string                 `json:"err"`
	SR     map[string]interface{} `json:"sr"`
	Tables json.RawMessage        `json:"tables"`
}

func (o *Oracle) call(req map[string]interface{}) (*jsReply, error) {
	o.mu.Lock()
	defer o.mu.Unlock()
	o.id++
	req["id"] = o.id
	b, err := json.Marshal(req)
	if err != nil {
		return nil, err
	}
	if _, err := o.in.Write(append(b, '\n')); err != nil {
		return nil, err
	}
	if err := o.in.Flush(); err != nil {
		return nil, err
	}
	line, err := o.out.ReadBytes('\n')
	if err != nil {
		return nil, fmt.Errorf("oracle died: %v", err)
	}
	var rep jsReply
	if err := json.Unmarshal(line, &rep); err != nil {
		return nil, fmt.Errorf("oracle reply %q: %v", line, err)
	}
	return &rep, nil
}

// Transform asks proj4js to transform the points. A nil result with a message means proj4js reported an error for that point.
func (o *Oracle) Transform(src, dst string, pts [][2]float64) ([]*[2]float64, []string, error) {
	rep, err := o.call(map[string]interface{}{"src": src, "dst": dst, "pts": pts})
	if err != nil {
		return nil, nil, err
	}
	if rep.Err != "" {
		// definition-level failure: every point fails
		out := make([]*[2]float64, len(pts))
		errs := make([]string, len(pts))
		for i := range errs {
			errs[i] = rep.Err
		}
		return out, errs, nil
	}
	errs := make([]string, len(rep.Pts))
	for i, e := range rep.Errs {
		if e != nil {
			errs[i] = *e
		}
	}
	return rep.Pts, errs, nil
}

// Parse returns proj4js's Proj object for the definition as a field map.
func (o *Oracle) Parse(def string) (map[string]interface{}, error) {
	rep, err := o.call(map[string]interface{}{"parse": def})
	if err != nil {
		return nil, err
	}
	if rep.Err != "" {
		return nil, fmt.Errorf("%s", rep.Err)
	}
	return rep.SR, nil
}
