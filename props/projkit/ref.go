package projkit

import (
	"math"
	"strconv"
	"strings"
)

// Independent reference formulas (forward only), written from the literature:
// Snyder, "Map Projections - A Working Manual" (1987) for Mercator, Lambert conformal conic, Albers;
// equidistant conic with the meridian arc by Gauss-Legendre quadrature; Karney (2011) Krueger series of order 6
// for transverse Mercator; geocentric Helmert chain for datum shifts.

const deg = math.Pi / 180

// Ellipsoid returns a and e^2 for the definition (named datum > explicit > default WGS84).
func (d Def) Ellipsoid() (a, es float64) {
	name := ""
	switch {
	case d.Proj == "krovak":
		name = "bessel"
	case d.DatumKind == "name":
		name = T.Datums[strings.ToLower(d.Datum)].Ellipse
	case d.EllpsKind == "name":
		name = d.Ellps
	case d.EllpsKind == "arf" || d.EllpsKind == "ab":
		b := d.A * (1 - 1/d.Rf)
		return d.A, (d.A*d.A - b*b) / (d.A * d.A)
	}
	e, ok := T.Ellipsoids[name]
	if !ok {
		e = T.Ellipsoids["WGS84"]
	}
	b := e.B
	if e.Rf != 0 {
		b = e.A * (1 - 1/e.Rf)
	}
	if b == 0 {
		b = e.A
	}
	return e.A, (e.A*e.A - b*b) / (e.A * e.A)
}

// ToWGS84 returns the 7 Helmert terms (metres, arc seconds, ppm), zero-padded; ok=false when the definition has no datum.
func (d Def) ToWGS84() (p [7]float64, ok bool) {
	switch d.DatumKind {
	case "towgs":
		copy(p[:], d.Towgs)
		return p, true
	case "name":
		for i, s := range strings.Split(T.Datums[strings.ToLower(d.Datum)].Towgs84, ",") {
			if i < 7 {
				p[i], _ = strconv.ParseFloat(strings.TrimSpace(s), 64)
			}
		}
		return p, true
	}
	return p, false
}

func geodeticToGeocentric(a, es, lon, lat, h float64) (x, y, z float64) {
	s, c := math.Sincos(lat)
	n := a / math.Sqrt(1-es*s*s)
	return (n + h) * c * math.Cos(lon), (n + h) * c * math.Sin(lon), (n*(1-es) + h) * s
}

func geocentricToGeodetic(a, es, x, y, z float64) (lon, lat, h float64) {
	lon = math.Atan2(y, x)
	p := math.Hypot(x, y)
	lat = math.Atan2(z, p*(1-es))
	for i := 0; i < 50; i++ {
		s := math.Sin(lat)
		n := a / math.Sqrt(1-es*s*s)
		h = p/math.Cos(lat) - n
		nl := math.Atan2(z, p*(1-es*n/(n+h)))
		if math.Abs(nl-lat) < 1e-15 {
			lat = nl
			break
		}
		lat = nl
	}
	s := math.Sin(lat)
	n := a / math.Sqrt(1-es*s*s)
	h = p/math.Cos(lat) - n
	return
}

// helmertToWGS84 applies the position-vector 7-parameter transformation (PROJ's +towgs84 convention).
func helmertToWGS84(p [7]float64, x, y, z float64) (float64, float64, float64) {
	rx, ry, rz := p[3]*deg/3600, p[4]*deg/3600, p[5]*deg/3600
	m := 1 + p[6]*1e-6
	return m*(x-rz*y+ry*z) + p[0], m*(rz*x+y-rx*z) + p[1], m*(-ry*x+rx*y+z) + p[2]
}

// helmertFromWGS84 is the exact inverse of helmertToWGS84 (3x3 solve), not the small-angle approximation.
func helmertFromWGS84(p [7]float64, x, y, z float64) (float64, float64, float64) {
	rx, ry, rz := p[3]*deg/3600, p[4]*deg/3600, p[5]*deg/3600
	m := 1 + p[6]*1e-6
	bx, by, bz := (x-p[0])/m, (y-p[1])/m, (z-p[2])/m
	// solve R v = b with R = [[1,-rz,ry],[rz,1,-rx],[-ry,rx,1]]
	A := [3][3]float64{{1, -rz, ry}, {rz, 1, -rx}, {-ry, rx, 1}}
	det := A[0][0]*(A[1][1]*A[2][2]-A[1][2]*A[2][1]) - A[0][1]*(A[1][0]*A[2][2]-A[1][2]*A[2][0]) + A[0][2]*(A[1][0]*A[2][1]-A[1][1]*A[2][0])
	vx := (bx*(A[1][1]*A[2][2]-A[1][2]*A[2][1]) - A[0][1]*(by*A[2][2]-A[1][2]*bz) + A[0][2]*(by*A[2][1]-A[1][1]*bz)) / det
	vy := (A[0][0]*(by*A[2][2]-A[1][2]*bz) - bx*(A[1][0]*A[2][2]-A[1][2]*A[2][0]) + A[0][2]*(A[1][0]*bz-by*A[2][0])) / det
	vz := (A[0][0]*(A[1][1]*bz-by*A[2][1]) - A[0][1]*(A[1][0]*bz-by*A[2][0]) + bx*(A[1][0]*A[2][1]-A[1][1]*A[2][0])) / det
	return vx, vy, vz
}

// RefDatumShift converts a geographic position (radians, Greenwich-based, height 0) on src's datum to dst's datum by one
// geocentric Helmert chain. When either side has no datum nothing is changed (PROJ.4 semantics).
func RefDatumShift(src, dst Def, lon, lat float64) (float64, float64) {
	ps, oks := src.ToWGS84()
	pd, okd := dst.ToWGS84()
	if !oks || !okd {
		return lon, lat
	}
	as, ess := src.Ellipsoid()
	ad, esd := dst.Ellipsoid()
	if ps == pd && as == ad && ess == esd {
		return lon, lat
	}
	x, y, z := geodeticToGeocentric(as, ess, lon, lat, 0)
	x, y, z = helmertToWGS84(ps, x, y, z)
	x, y, z = helmertFromWGS84(pd, x, y, z)
	lon, lat, _ = geocentricToGeodetic(ad, esd, x, y, z)
	return lon, lat
}

func mfn(es, phi float64) float64 {
	s := math.Sin(phi)
	return math.Cos(phi) / math.Sqrt(1-es*s*s)
}
func tfn(e, phi float64) float64 {
	s := math.Sin(phi)
	return math.Tan(math.Pi/4-phi/2) / math.Pow((1-e*s)/(1+e*s), e/2)
}
func qfn(e, phi float64) float64 {
	s := math.Sin(phi)
	if e < 1e-12 {
		return 2 * s
	}
	return (1 - e*e) * (s/(1-e*e*s*s) - math.Log((1-e*s)/(1+e*s))/(2*e))
}

// 32-point Gauss-Legendre nodes/weights on [-1,1], computed once by Newton iteration on P_32.
var glX, glW = gaussLegendre(32)

func gaussLegendre(n int) ([]float64, []float64) {
	x := make([]float64, n)
	w := make([]float64, n)
	for i := 0; i < n; i++ {
		z := math.Cos(math.Pi * (float64(i) + 0.75) / (float64(n) + 0.5))
		var pp float64
		for it := 0; it < 100; it++ {
			p1, p2 := 1.0, 0.0
			for j := 0; j < n; j++ {
				p3 := p2
				p2 = p1
				p1 = ((2*float64(j)+1)*z*p2 - float64(j)*p3) / (float64(j) + 1)
			}
			pp = float64(n) * (z*p1 - p2) / (z*z - 1)
			z1 := z
			z = z1 - p1/pp
			if math.Abs(z-z1) < 1e-16 {
				break
			}
		}
		x[i] = z
		w[i] = 2 / ((1 - z*z) * pp * pp)
	}
	return x, w
}

// MeridianArc is the distance along the meridian from the equator to phi, by quadrature (no series).
func MeridianArc(a, es, phi float64) float64 {
	// integrate a(1-es)(1-es sin^2 t)^(-3/2) dt over [0,phi]
	sum := 0.0
	h := phi / 2
	for i := range glX {
		t := h*glX[i] + h
		s := math.Sin(t)
		sum += glW[i] * math.Pow(1-es*s*s, -1.5)
	}
	return a * (1 - es) * sum * h
}

// RefForward projects a position (radians, longitude relative to the definition's own prime meridian) that already is on
// the definition's datum. It returns metres (before the unit conversion) and ok=false for projections without a reference.
func RefForward(d Def, lon, lat float64) (x, y float64, ok bool) {
	a, es := d.Ellipsoid()
	e := math.Sqrt(es)
	lon0, lat0 := d.Lon0*deg, d.Lat0*deg
	dl := lon - lon0
	for dl > math.Pi {
		dl -= 2 * math.Pi
	}
	for dl < -math.Pi {
		dl += 2 * math.Pi
	}
	switch d.Proj {
	case "merc":
		k0 := d.K0
		if d.LatTS != nil {
			k0 = mfn(es, *d.LatTS*deg)
		}
		if k0 == 0 {
			k0 = 1
		}
		return d.X0 + a*k0*dl, d.Y0 - a*k0*math.Log(tfn(e, lat)), true
	case "lcc":
		p1, p2 := d.Lat1*deg, d.Lat2*deg
		var n float64
		if d.OneSP || p1 == p2 {
			n = math.Sin(p1)
		} else {
			n = (math.Log(mfn(es, p1)) - math.Log(mfn(es, p2))) / (math.Log(tfn(e, p1)) - math.Log(tfn(e, p2)))
		}
		F := mfn(es, p1) / (n * math.Pow(tfn(e, p1), n))
		k0 := d.K0
		if k0 == 0 {
			k0 = 1
		}
		rho := a * F * math.Pow(tfn(e, lat), n) * k0
		rho0 := a * F * math.Pow(tfn(e, lat0), n) * k0
		return d.X0 + rho*math.Sin(n*dl), d.Y0 + rho0 - rho*math.Cos(n*dl), true
	case "aea":
		p1, p2 := d.Lat1*deg, d.Lat2*deg
		m1, m2 := mfn(es, p1), mfn(es, p2)
		q1, q2 := qfn(e, p1), qfn(e, p2)
		var n float64
		if d.OneSP || p1 == p2 {
			n = math.Sin(p1)
		} else {
			n = (m1*m1 - m2*m2) / (q2 - q1)
		}
		C := m1*m1 + n*q1
		rho := a * math.Sqrt(C-n*qfn(e, lat)) / n
		rho0 := a * math.Sqrt(C-n*qfn(e, lat0)) / n
		return d.X0 + rho*math.Sin(n*dl), d.Y0 + rho0 - rho*math.Cos(n*dl), true
	case "eqdc":
		p1, p2 := d.Lat1*deg, d.Lat2*deg
		m1, m2 := mfn(es, p1), mfn(es, p2)
		M1, M2 := MeridianArc(a, es, p1), MeridianArc(a, es, p2)
		var n float64
		if d.OneSP || p1 == p2 {
			n = math.Sin(p1)
		} else {
			n = a * (m1 - m2) / (M2 - M1)
		}
		G := m1/n + M1/a
		rho := a*G - MeridianArc(a, es, lat)
		rho0 := a*G - MeridianArc(a, es, lat0)
		return d.X0 + rho*math.Sin(n*dl), d.Y0 + rho0 - rho*math.Cos(n*dl), true
	case "tmerc", "utm":
		k0, x0, y0 := d.K0, d.X0, d.Y0
		if d.Proj == "utm" {
			k0, x0, y0, lat0 = 0.9996, 500000, 0, 0
			if d.South {
				y0 = 10000000
			}
		}
		xi, eta, A := kruger(a, es, dl, lat)
		xi0, _, _ := kruger(a, es, 0, lat0)
		return x0 + k0*A*eta, y0 + k0*A*(xi-xi0), true
	}
	return 0, 0, false
}

// kruger returns the Krueger xi, eta (Karney 2011, eqs 7-11, 35) and the rectifying radius A.
func kruger(a, es, dl, lat float64) (xi, eta, A float64) {
	f := 1 - math.Sqrt(1-es)
	n := f / (2 - f)
	n2, n3, n4, n5, n6 := n*n, n*n*n, n*n*n*n, n*n*n*n*n, n*n*n*n*n*n
	A = a / (1 + n) * (1 + n2/4 + n4/64 + n6/256)
	al := [7]float64{0,
		n/2 - 2*n2/3 + 5*n3/16 + 41*n4/180 - 127*n5/288 + 7891*n6/37800,
		13*n2/48 - 3*n3/5 + 557*n4/1440 + 281*n5/630 - 1983433*n6/1935360,
		61*n3/240 - 103*n4/140 + 15061*n5/26880 + 167603*n6/181440,
		49561*n4/161280 - 179*n5/168 + 6601661*n6/7257600,
		34729*n5/80640 - 3418889*n6/1995840,
		212378941 * n6 / 319334400}
	e := math.Sqrt(es)
	tau := math.Tan(lat)
	sigma := math.Sinh(e * math.Atanh(e*tau/math.Sqrt(1+tau*tau)))
	taup := tau*math.Sqrt(1+sigma*sigma) - sigma*math.Sqrt(1+tau*tau)
	xip := math.Atan2(taup, math.Cos(dl))
	etap := math.Asinh(math.Sin(dl) / math.Hypot(taup, math.Cos(dl)))
	xi, eta = xip, etap
	for j := 1; j <= 6; j++ {
		xi += al[j] * math.Sin(2*float64(j)*xip) * math.Cosh(2*float64(j)*etap)
		eta += al[j] * math.Cos(2*float64(j)*xip) * math.Sinh(2*float64(j)*etap)
	}
	return
}
