// Package projkit holds the PROJ.4 definition generator shared by the projection checks (C08, C09, C10, C20),
// the proj4js tables, and the client of the proj4js node oracle.
package projkit

import (
	"encoding/json"
	"fmt"
	"math"
	"os"
	"path/filepath"
	"sort"
	"strconv"
	"strings"

	"pgregory.net/rapid"
	"verif/vkit"
)

// Tables are proj4js 2.3.12's constant tables (ref/golden/tables.json, dumped from the vendored sources).
type Tables struct {
	Ellipsoids map[string]struct {
		A           float64 `json:"a"`
		B           float64 `json:"b"`
		Rf          float64 `json:"rf"`
		EllipseName string  `json:"ellipseName"`
	} `json:"ellipsoids"`
	Datums map[string]struct {
		Towgs84   string `json:"towgs84"`
		Ellipse   string `json:"ellipse"`
		DatumName string `json:"datumName"`
		Nadgrids  string `json:"nadgrids"`
	} `json:"datums"`
	PrimeMeridians map[string]float64 `json:"primeMeridians"`
	Units          map[string]struct {
		ToMeter float64 `json:"to_meter"`
	} `json:"units"`
}

var T Tables
var EllipsoidNames, DatumNames, PMNames, UnitNames []string

func init() {
	b, err := os.ReadFile(filepath.Join(vkit.VerifDir(), "ref", "golden", "tables.json"))
	if err != nil {
		panic(err)
	}
	if err := json.Unmarshal(b, &T); err != nil {
		panic(err)
	}
	for k := range T.Ellipsoids {
		EllipsoidNames = append(EllipsoidNames, k)
	}
	for k, d := range T.Datums {
		if d.Towgs84 != "" { // grid-shift datums (nad27) are not supported by the port
			DatumNames = append(DatumNames, k)
		}
	}
	for k := range T.PrimeMeridians {
		PMNames = append(PMNames, k)
	}
	for k := range T.Units {
		UnitNames = append(UnitNames, k)
	}
	sort.Strings(EllipsoidNames)
	sort.Strings(DatumNames)
	sort.Strings(PMNames)
	sort.Strings(UnitNames)
}

// Def is a PROJ.4 definition as pure data.
type Def struct {
	Proj      string    `json:"proj"`                 // longlat merc lcc aea eqdc tmerc utm krovak
	EllpsKind string    `json:"ellps_kind,omitempty"` // name | arf | ab | "" (default)
	Ellps     string    `json:"ellps,omitempty"`
	A         float64   `json:"a,omitempty"`
	Rf        float64   `json:"rf,omitempty"`
	DatumKind string    `json:"datum_kind,omitempty"` // "" | name | towgs
	Datum     string    `json:"datum,omitempty"`
	Towgs     []float64 `json:"towgs,omitempty"`
	Lon0      float64   `json:"lon_0"`
	Lat0      float64   `json:"lat_0"`
	Lat1      float64   `json:"lat_1,omitempty"`
	Lat2      float64   `json:"lat_2,omitempty"`
	OneSP     bool      `json:"one_sp,omitempty"`
	LatTS     *float64  `json:"lat_ts,omitempty"`
	X0        float64   `json:"x_0"`
	Y0        float64   `json:"y_0"`
	K0        float64   `json:"k_0,omitempty"`
	Units     string    `json:"units,omitempty"`
	ToMeter   float64   `json:"to_meter,omitempty"`
	PM        string    `json:"pm,omitempty"` // name or decimal degrees
	Zone      int       `json:"zone,omitempty"`
	South     bool      `json:"south,omitempty"`
	Axis      string    `json:"axis,omitempty"`
	// OmitDefaults: parameters whose value is PROJ's default (lat_0, lon_0, x_0, y_0 = 0; k/k_0 = 1) are left out of the text
	OmitDefaults bool `json:"omit_defaults,omitempty"`
	// RA: the text carries +R_A (the sphere of the same surface area instead of the ellipsoid)
	RA bool `json:"r_a,omitempty"`
	// NullGridFirst: "+nadgrids=@null" is written BEFORE the +datum clause of a named datum. Options take effect in the
	// order in which they are written: the datum named afterwards is the datum of the definition again.
	NullGridFirst bool `json:"null_grid_first,omitempty"`
	// NoneSpelling (definitions without a datum only): the absence of a datum is written out, as "+datum=none" or
	// "+nadgrids=@null"
	NoneSpelling string `json:"none_spelling,omitempty"`
}

func f(v float64) string { return strconv.FormatFloat(v, 'f', -1, 64) } // no exponent: '+' separates PROJ.4 parameters

// String renders the PROJ.4 text.
func (d Def) String() string {
	var sb strings.Builder
	w := func(s string) { sb.WriteString(s); sb.WriteByte(' ') }
	// wd writes "+name=value" unless the definition relies on PROJ's default for that parameter (0 for lat_0, lon_0, x_0,
	// y_0; 1 for the scale factor) and the value is that default
	wd := func(name string, v, def float64) {
		if d.OmitDefaults && v == def {
			return
		}
		w("+" + name + "=" + f(v))
	}
	w("+proj=" + d.Proj)
	switch d.Proj {
	case "utm":
		w(fmt.Sprintf("+zone=%d", d.Zone))
		if d.South {
			w("+south")
		}
	case "longlat":
	case "krovak":
		w("+lat_0=" + f(d.Lat0)) // krovak has defaults of its own: always spelled out
		w("+lon_0=" + f(d.Lon0))
		w("+k=" + f(d.K0))
		w("+x_0=" + f(d.X0))
		w("+y_0=" + f(d.Y0))
	case "merc":
		wd("lon_0", d.Lon0, 0)
		if d.LatTS != nil {
			w("+lat_ts=" + f(*d.LatTS))
		} else {
			wd("k_0", d.K0, 1)
		}
		wd("x_0", d.X0, 0)
		wd("y_0", d.Y0, 0)
	case "lcc", "aea", "eqdc":
		w("+lat_1=" + f(d.Lat1))
		if !d.OneSP {
			w("+lat_2=" + f(d.Lat2))
		}
		wd("lat_0", d.Lat0, 0)
		wd("lon_0", d.Lon0, 0)
		wd("x_0", d.X0, 0)
		wd("y_0", d.Y0, 0)
		if d.Proj == "lcc" && d.K0 != 0 {
			wd("k_0", d.K0, 1)
		}
	case "tmerc":
		wd("lat_0", d.Lat0, 0)
		wd("lon_0", d.Lon0, 0)
		wd("k", d.K0, 1)
		wd("x_0", d.X0, 0)
		wd("y_0", d.Y0, 0)
	}
	switch d.EllpsKind {
	case "name":
		w("+ellps=" + d.Ellps)
	case "arf":
		w("+a=" + f(d.A))
		w("+rf=" + f(d.Rf))
	case "ab":
		w("+a=" + f(d.A))
		w("+b=" + f(d.A*(1-1/d.Rf)))
	}
	switch d.DatumKind {
	case "name":
		if d.NullGridFirst {
			w("+nadgrids=@null")
		}
		if len(d.Towgs) > 0 {
			// a +towgs84 clause next to a named datum: the table entry of the name replaces it (as in proj4js)
			s := make([]string, len(d.Towgs))
			for i, v := range d.Towgs {
				s[i] = f(v)
			}
			w("+towgs84=" + strings.Join(s, ","))
		}
		w("+datum=" + d.Datum)
	case "towgs":
		s := make([]string, len(d.Towgs))
		for i, v := range d.Towgs {
			s[i] = f(v)
		}
		w("+towgs84=" + strings.Join(s, ","))
	}
	if d.DatumKind == "" && d.NoneSpelling != "" {
		w(d.NoneSpelling)
	}
	if d.PM != "" {
		w("+pm=" + d.PM)
	}
	if d.Proj != "longlat" {
		if d.ToMeter != 0 {
			w("+to_meter=" + f(d.ToMeter))
		} else if d.Units != "" {
			w("+units=" + d.Units)
		}
	}
	if d.Axis != "" {
		w("+axis=" + d.Axis)
	}
	if d.RA {
		w("+R_A")
	}
	w("+no_defs")
	return strings.TrimSpace(sb.String())
}

// PMDegrees is the prime meridian offset in degrees east of Greenwich.
func (d Def) PMDegrees() float64 {
	if d.PM == "" {
		return 0
	}
	if v, ok := T.PrimeMeridians[d.PM]; ok {
		return v
	}
	v, _ := strconv.ParseFloat(d.PM, 64)
	return v
}

// UnitToMeter is the linear unit of the projected coordinates.
func (d Def) UnitToMeter() float64 {
	if d.Proj == "longlat" {
		return 1
	}
	if d.ToMeter != 0 {
		return d.ToMeter
	}
	if u, ok := T.Units[d.Units]; ok {
		return u.ToMeter
	}
	return 1
}

// HasShift reports a 3/7-parameter datum (named or explicit) with a non-zero shift.
func (d Def) HasShift() bool {
	switch d.DatumKind {
	case "towgs":
		for _, v := range d.Towgs {
			if v != 0 {
				return true
			}
		}
	case "name":
		tw := T.Datums[strings.ToLower(d.Datum)].Towgs84
		for _, s := range strings.Split(tw, ",") {
			if v, _ := strconv.ParseFloat(s, 64); v != 0 {
				return true
			}
		}
	}
	return false
}

// GeographicOnSameDatum is the geographic system on d's own ellipsoid, datum and prime meridian.
func (d Def) GeographicOnSameDatum() Def {
	g := d
	g.Proj = "longlat"
	g.Units, g.ToMeter, g.Axis = "", 0, ""
	if d.Proj == "krovak" {
		// krovak works on the Bessel ellipsoid whatever the definition says
		g.EllpsKind, g.Ellps = "name", "bessel"
	}
	return g
}

// Opts steers GenDef.
type Opts struct {
	Projs    []string
	NoDatum  bool // never draw a datum
	NoPM     bool
	NoUnits  bool
	WithAxis bool
	WithRA   bool // one definition in ten carries +R_A
	// SmallShift keeps explicit +towgs84 terms small (<=100 m, <=1 arcsec, <=5 ppm) so that a 2-D round trip,
	// which cannot carry the ellipsoidal height, stays invertible to millimetres.
	SmallShift bool
	// MaxRot caps the rotation terms (arc seconds) of explicit 7-parameter shifts (0 = default 5).
	MaxRot float64
	// NoNamedDatum7 avoids the named 7-parameter datums (rotations up to 1.8 arc seconds are fine; kept for symmetry).
	OnlyDatum bool // always draw a datum (named or towgs84)
}

var AllProjs = []string{"longlat", "merc", "lcc", "aea", "eqdc", "tmerc", "utm", "krovak"}

func genEllps(t *rapid.T, d *Def) {
	switch rapid.IntRange(0, 5).Draw(t, "ellkind") {
	case 0:
		d.EllpsKind = "" // default WGS84
	case 1, 2, 3:
		d.EllpsKind, d.Ellps = "name", rapid.SampledFrom(EllipsoidNames).Draw(t, "ellps")
	case 4:
		d.EllpsKind = "arf"
		d.A, d.Rf = rapid.Float64Range(6.3e6, 6.4e6).Draw(t, "a"), rapid.Float64Range(250, 350).Draw(t, "rf")
	default:
		d.EllpsKind = "ab"
		d.A, d.Rf = rapid.Float64Range(6.3e6, 6.4e6).Draw(t, "a"), rapid.Float64Range(250, 350).Draw(t, "rf")
	}
}

func genDatum(t *rapid.T, d *Def, small bool, maxRot float64, only bool) {
	D, R, S := 800.0, 5.0, 25.0
	if small {
		D, R, S = 100, 1, 5
	}
	if maxRot > 0 {
		R = maxRot
	}
	lo := 0
	if only {
		lo = 2
	}
	switch rapid.IntRange(lo, 5).Draw(t, "datkind") {
	case 0, 1:
		d.DatumKind = ""
	case 2, 3:
		d.DatumKind, d.Datum = "name", rapid.SampledFrom(append([]string{"WGS84"}, DatumNames...)).Draw(t, "datum")
		d.EllpsKind = "" // a named datum brings its ellipsoid
	case 4:
		d.DatumKind = "towgs"
		d.Towgs = []float64{r3(rapid.Float64Range(-D, D).Draw(t, "dx")), r3(rapid.Float64Range(-D, D).Draw(t, "dy")), r3(rapid.Float64Range(-D, D).Draw(t, "dz"))}
	default:
		d.DatumKind = "towgs"
		d.Towgs = []float64{r3(rapid.Float64Range(-D, D).Draw(t, "dx")), r3(rapid.Float64Range(-D, D).Draw(t, "dy")), r3(rapid.Float64Range(-D, D).Draw(t, "dz")),
			r3(rapid.Float64Range(-R, R).Draw(t, "rx")), r3(rapid.Float64Range(-R, R).Draw(t, "ry")), r3(rapid.Float64Range(-R, R).Draw(t, "rz")), r3(rapid.Float64Range(-S, S).Draw(t, "s"))}
	}
}

func r3(v float64) float64 { return math.Round(v*1000) / 1000 }
func r6(v float64) float64 { return math.Round(v*1e6) / 1e6 }

// GenDef draws a definition whose parameters are valid for its projection.
func GenDef(t *rapid.T, o Opts) Def {
	projs := o.Projs
	if len(projs) == 0 {
		projs = AllProjs
	}
	var d Def
	d.Proj = rapid.SampledFrom(projs).Draw(t, "proj")
	genEllps(t, &d)
	if !o.NoDatum {
		genDatum(t, &d, o.SmallShift, o.MaxRot, o.OnlyDatum)
	}
	x0 := func() float64 {
		return rapid.OneOf(rapid.SampledFrom([]float64{0, 500000, 2000000, -400000}), rapid.Float64Range(-1e7, 1e7)).Draw(t, "x0")
	}
	switch d.Proj {
	case "longlat":
	case "utm":
		d.Zone = rapid.IntRange(1, 60).Draw(t, "zone")
		d.South = rapid.Bool().Draw(t, "south")
		d.Lon0 = float64(6*d.Zone - 183)
	case "merc":
		d.Lon0 = r6(rapid.Float64Range(-30, 30).Draw(t, "lon0"))
		if rapid.Bool().Draw(t, "uselatts") {
			v := r6(rapid.Float64Range(-60, 60).Draw(t, "latts"))
			d.LatTS = &v
		} else {
			d.K0 = rapid.OneOf(rapid.Just(1.0), rapid.Float64Range(0.9, 1.1)).Draw(t, "k0")
		}
		d.X0, d.Y0 = x0(), x0()
	case "lcc", "aea", "eqdc":
		sgn := rapid.SampledFrom([]float64{1, 1, -1}).Draw(t, "hemi")
		a := rapid.Float64Range(5, 75).Draw(t, "lat1")
		b := rapid.Float64Range(5, 75).Draw(t, "lat2")
		d.Lat1, d.Lat2 = r6(sgn*math.Min(a, b)), r6(sgn*math.Max(a, b))
		d.OneSP = rapid.IntRange(0, 3).Draw(t, "onesp") == 0
		if math.Abs(d.Lat1-d.Lat2) < 0.5 {
			// nearly equal parallels make the cone constant 0/0-like (ill-conditioned: ulp differences between math
			// libraries are amplified by 1e10), so they are spelled as the one-parallel case
			d.OneSP = true
		}
		if d.OneSP {
			d.Lat2 = d.Lat1
		}
		d.Lat0 = r6(sgn * rapid.Float64Range(0, 80).Draw(t, "lat0"))
		d.Lon0 = r6(rapid.Float64Range(-80, 80).Draw(t, "lon0"))
		d.X0, d.Y0 = x0(), x0()
		if d.Proj == "lcc" && rapid.Bool().Draw(t, "lcck0") {
			d.K0 = rapid.Float64Range(0.9, 1.1).Draw(t, "k0")
		}
	case "tmerc":
		d.Lat0 = r6(rapid.Float64Range(-80, 80).Draw(t, "lat0"))
		d.Lon0 = r6(rapid.Float64Range(-170, 170).Draw(t, "lon0"))
		d.K0 = rapid.OneOf(rapid.SampledFrom([]float64{1, 0.9996, 0.9996012717}), rapid.Float64Range(0.9, 1.1)).Draw(t, "k0")
		d.X0, d.Y0 = x0(), x0()
	case "krovak":
		d.Lat0, d.Lon0, d.K0 = 49.5, 24.833333333333332, 0.9999
		d.X0, d.Y0 = 0, 0
		if d.EllpsKind != "" || d.DatumKind != "name" {
			d.EllpsKind, d.Ellps = "name", "bessel"
		}
	}
	if d.Proj != "longlat" && !o.NoUnits {
		switch rapid.IntRange(0, 5).Draw(t, "unitkind") {
		case 0:
			d.Units = "m"
		case 1:
			d.Units = "ft"
		case 2:
			d.Units = "us-ft"
		case 3:
			d.ToMeter = rapid.SampledFrom([]float64{0.3048, 1000, 0.9143984146160287, 0.201168}).Draw(t, "tometer")
		}
	}
	if !o.NoPM && rapid.IntRange(0, 3).Draw(t, "usepm") == 0 {
		if rapid.Bool().Draw(t, "pmname") {
			d.PM = rapid.SampledFrom(PMNames).Draw(t, "pm")
		} else {
			d.PM = f(r6(rapid.Float64Range(-20, 20).Draw(t, "pmdeg")))
		}
	}
	if o.WithAxis && rapid.IntRange(0, 2).Draw(t, "useaxis") == 0 {
		d.Axis = rapid.SampledFrom([]string{"enu", "neu", "wnu", "esu", "wsu", "end", "swu"}).Draw(t, "axis")
	}
	if o.WithRA && rapid.IntRange(0, 9).Draw(t, "ra") == 4 {
		d.RA = true
	}
	if rapid.IntRange(0, 2).Draw(t, "omitdefaults") == 1 {
		// rely on PROJ's defaults: parameters equal to their default are not written; to make that bite, some of them are
		// set to the default first
		d.OmitDefaults = true
		if rapid.Bool().Draw(t, "zerox0") {
			d.X0 = 0
		}
		if rapid.Bool().Draw(t, "zeroy0") {
			d.Y0 = 0
		}
		if d.Proj == "tmerc" && rapid.Bool().Draw(t, "zerolat0") {
			d.Lat0 = 0
		}
	}
	return d
}

// GenPosition draws a Greenwich-based longitude/latitude (degrees) inside the usable region of d.
func GenPosition(t *rapid.T, d Def) (lon, lat float64) {
	pm := d.PMDegrees()
	switch d.Proj {
	case "tmerc", "utm":
		lon = d.Lon0 + pm + rapid.Float64Range(-3.5, 3.5).Draw(t, "dlon")
		lat = rapid.Float64Range(-84, 84).Draw(t, "lat")
		if d.Proj == "utm" {
			lat = rapid.Float64Range(-80, 84).Draw(t, "lat")
		}
	case "merc":
		// the Mercator forward rejects pm-relative longitudes outside [-180,180] (as proj4js does): stay wrap-free
		lo, hi := math.Max(d.Lon0-120, -179-pm), math.Min(d.Lon0+120, 179-pm)
		lo, hi = math.Max(lo, -179), math.Min(hi, 179)
		lon = rapid.Float64Range(lo, hi).Draw(t, "rellon") + pm
		lat = rapid.Float64Range(-85, 85).Draw(t, "lat")
	case "lcc", "aea", "eqdc":
		lo, hi := math.Min(d.Lat1, d.Lat2)-30, math.Max(d.Lat1, d.Lat2)+30
		if d.Lat1 > 0 {
			lo, hi = math.Max(lo, 1), math.Min(hi, 88)
		} else {
			lo, hi = math.Max(lo, -88), math.Min(hi, -1)
		}
		lat = rapid.Float64Range(lo, hi).Draw(t, "lat")
		lon = d.Lon0 + pm + rapid.Float64Range(-90, 90).Draw(t, "dlon")
	case "krovak":
		lon = pm + rapid.Float64Range(12, 23).Draw(t, "lon")
		lat = rapid.Float64Range(47, 52).Draw(t, "lat")
	default:
		lon = rapid.Float64Range(-179, 179).Draw(t, "lon")
		lat = rapid.Float64Range(-89, 89).Draw(t, "lat")
	}
	// keep Greenwich longitudes (and the pm-relative ones) inside (-180,180)
	for lon > 179 {
		lon -= 360
	}
	for lon < -179 {
		lon += 360
	}
	return
}

// GenDefFor draws a definition whose usable region contains the Greenwich position (lon, lat) in degrees.
func GenDefFor(t *rapid.T, o Opts, lon, lat float64) Def {
	al := math.Abs(lat)
	var projs []string
	for _, p := range o.Projs {
		switch p {
		case "tmerc":
			if al <= 84 {
				projs = append(projs, p)
			}
		case "utm":
			if lat >= -80 && lat <= 84 {
				projs = append(projs, p)
			}
		case "merc":
			if al <= 85 {
				projs = append(projs, p)
			}
		case "lcc", "aea", "eqdc":
			if al >= 1 && al <= 88 {
				projs = append(projs, p)
			}
		case "krovak":
			if lat >= 47 && lat <= 52 && lon >= 12 && lon <= 23 {
				projs = append(projs, p)
			}
		default:
			projs = append(projs, p)
		}
	}
	if len(projs) == 0 {
		projs = []string{"longlat"}
	}
	oo := o
	oo.Projs = projs
	if contains(projs, "krovak") || true {
		oo.NoPM = o.NoPM
	}
	d := GenDef(t, oo)
	if d.Proj == "krovak" {
		d.PM = "" // the krovak box is given in Greenwich longitudes
	}
	rel := lon - d.PMDegrees() // longitude relative to the definition's prime meridian
	for rel > 180 {
		rel -= 360
	}
	for rel < -180 {
		rel += 360
	}
	switch d.Proj {
	case "tmerc":
		d.Lon0 = r6(rel + rapid.Float64Range(-3.4, 3.4).Draw(t, "dlon0"))
	case "utm":
		z := int(math.Floor((rel+180)/6)) + 1
		if z < 1 {
			z = 1
		}
		if z > 60 {
			z = 60
		}
		d.Zone = z
		d.Lon0 = float64(6*z - 183)
	case "merc":
		d.Lon0 = r6(rel + rapid.Float64Range(-100, 100).Draw(t, "dlon0"))
	case "lcc", "aea", "eqdc":
		sgn := 1.0
		if lat < 0 {
			sgn = -1
		}
		lo, hi := math.Max(5, al-25), math.Min(75, al+25)
		if lo > hi {
			lo, hi = hi, lo
		}
		a := rapid.Float64Range(lo, hi).Draw(t, "flat1")
		b := rapid.Float64Range(lo, hi).Draw(t, "flat2")
		d.Lat1, d.Lat2 = r6(sgn*math.Min(a, b)), r6(sgn*math.Max(a, b))
		if d.OneSP || math.Abs(d.Lat1-d.Lat2) < 0.5 {
			d.OneSP = true
			d.Lat2 = d.Lat1
		}
		d.Lat0 = r6(sgn * rapid.Float64Range(0, 80).Draw(t, "flat0"))
		d.Lon0 = r6(rel + rapid.Float64Range(-85, 85).Draw(t, "dlon0"))
	}
	return d
}

func contains(s []string, v string) bool {
	for _, x := range s {
		if x == v {
			return true
		}
	}
	return false
}
