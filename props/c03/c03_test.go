// C03 — Area, centroid, length and distance are the true measures of the shape.
package c03

import (
	"fmt"
	"math"
	"math/big"
	"sort"
	"testing"

	"github.com/ctessum/geom"
	"github.com/ctessum/geom/op"
	"pgregory.net/rapid"
	"verif/vkit"
)

type Case struct {
	Kind string `json:"kind"` // poly | line | buffer | box
	// poly: lattice (integer) rings as spelled (reversed / rotated / closed or not); ring 0 of each polygon is the shell
	Lattice [][][]vkit.P2 `json:"lattice,omitempty"`
	AsMulti bool          `json:"as_multi,omitempty"`
	S       float64       `json:"s,omitempty"` // uniform scale and translation applied before calling geom (1,0,0 = exact)
	Tx      float64       `json:"tx,omitempty"`
	Ty      float64       `json:"ty,omitempty"`
	Orbit   string        `json:"orbit,omitempty"` // generator label
	// RingOrder[i], when present, is the order in which the rings of polygon i are handed to geom (Lattice keeps the
	// shell first for the oracle): the library does not ask for the shell to come first
	RingOrder [][]int `json:"ring_order,omitempty"`
	// line
	Lines [][]vkit.P2 `json:"lines,omitempty"`
	Pt    vkit.P2     `json:"pt,omitempty"`
	// buffer / box
	Radius   float64 `json:"radius,omitempty"`
	Segments int     `json:"segments,omitempty"`
	// line: the lines and the query point are handed to geom multiplied exactly by 2^LineScaleExp; the expected length
	// and distance are those of the unscaled case times 2^LineScaleExp (exact)
	LineScaleExp int `json:"line_scale_exp,omitempty"`
	// axis (kind "axis"): every vertex of Lines and (unless AxisOff != 0) the query point share ONE coordinate value
	// AxisShared exactly - on the x axis if AxisVertical, else on the y axis -, the other coordinate being the small
	// integer stored in Lines / Pt times 2^AxisUnitExp; the query point is AxisOff units of 2^AxisUnitExp away from the
	// line's axis. Lengths and distances are those of a one-dimensional problem and exact.
	AxisShared   vkit.F `json:"axis_shared,omitempty"`
	AxisUnitExp  int    `json:"axis_unit_exp,omitempty"`
	AxisVertical bool   `json:"axis_vertical,omitempty"`
	AxisOff      int    `json:"axis_off,omitempty"`
}

func ip(x, y int) vkit.P2 { return vkit.MkP(float64(x), float64(y)) }

// convexHull of lattice points (Andrew monotone chain), counter-clockwise, no collinear points.
func convexHull(pts []vkit.P2) []vkit.P2 {
	p := append([]vkit.P2(nil), pts...)
	sort.Slice(p, func(i, j int) bool { return p[i][0] < p[j][0] || (p[i][0] == p[j][0] && p[i][1] < p[j][1]) })
	var h []vkit.P2
	for pass := 0; pass < 2; pass++ {
		start := len(h)
		for _, q := range p {
			for len(h) >= start+2 && vkit.Cross(h[len(h)-2], h[len(h)-1], q) <= 0 {
				h = h[:len(h)-1]
			}
			h = append(h, q)
		}
		h = h[:len(h)-1]
		for i, j := 0, len(p)-1; i < j; i, j = i+1, j-1 {
			p[i], p[j] = p[j], p[i]
		}
	}
	return h
}

// latticePolygon: shell around the core box [0,W]x[0,H] (convex hull or x-monotone staircase), holes = convex lattice
// polygons in disjoint cells strictly inside the core. Offset ox shifts everything (multi-polygon members).
// freeHullPolygon: shell = convex hull of 3-8 random points on a coarse lattice (multiples of 4: triangles, diamonds, ...
// whose bounding-box extremes are single vertices), holes = convex polygons on the unit lattice placed anywhere - also
// close to the shell's extreme vertices - and accepted when all their vertices are strictly inside the shell (exact
// test; for a convex hole in a convex shell that means strictly inside) and their boxes are separated from each other.
func freeHullPolygon(t *rapid.T, ox int) [][]vkit.P2 {
	var shell []vkit.P2
	for try := 0; try < 8 && len(shell) < 3; try++ {
		n := rapid.IntRange(3, 8).Draw(t, "fhn")
		var pts []vkit.P2
		for i := 0; i < n; i++ {
			pts = append(pts, ip(ox+4*rapid.IntRange(0, 10).Draw(t, "fhx"), 4*rapid.IntRange(0, 10).Draw(t, "fhy")))
		}
		shell = convexHull(pts)
	}
	if len(shell) < 3 {
		shell = []vkit.P2{ip(ox, 0), ip(ox+40, 0), ip(ox+20, 40)}
	}
	rings := [][]vkit.P2{shell}
	x0, y0, x1, y1 := 1<<30, 1<<30, -(1 << 30), -(1 << 30)
	for _, p := range shell {
		x0, y0 = min(x0, int(p[0])), min(y0, int(p[1]))
		x1, y1 = max(x1, int(p[0])), max(y1, int(p[1]))
	}
	type box struct{ x0, y0, x1, y1 int }
	var boxes []box
	nh := rapid.IntRange(0, 3).Draw(t, "fhholes")
	for h := 0; h < nh; h++ {
		for try := 0; try < 6; try++ {
			bx, by := rapid.IntRange(x0, x1).Draw(t, "hbx"), rapid.IntRange(y0, y1).Draw(t, "hby")
			k := rapid.IntRange(3, 5).Draw(t, "hk")
			var hp []vkit.P2
			for i := 0; i < k; i++ {
				hp = append(hp, ip(bx+rapid.IntRange(0, 5).Draw(t, "hdx"), by+rapid.IntRange(0, 5).Draw(t, "hdy")))
			}
			hull := convexHull(hp)
			if len(hull) < 3 {
				continue
			}
			ok := true
			b := box{1 << 30, 1 << 30, -(1 << 30), -(1 << 30)}
			for _, q := range hull {
				if vkit.PIP(q, [][][]vkit.P2{{shell}}) != vkit.Inside {
					ok = false
				}
				b.x0, b.y0, b.x1, b.y1 = min(b.x0, int(q[0])), min(b.y0, int(q[1])), max(b.x1, int(q[0])), max(b.y1, int(q[1]))
			}
			for _, o := range boxes {
				if !(b.x1+1 < o.x0 || o.x1+1 < b.x0 || b.y1+1 < o.y0 || o.y1+1 < b.y0) {
					ok = false
				}
			}
			if ok {
				rings = append(rings, hull)
				boxes = append(boxes, b)
				break
			}
		}
	}
	return rings
}

// teethPolygon: a rectangle or an L-shaped shell (even lattice coordinates, sides of 12 and more) with a small
// triangular hole whose apex is AT every vertex of the shell, and more such holes whose apex is at the MIDDLE of a side:
// of no side, of every side, of the first k sides in stored order, or of a drawn subset. The rings touch in points only
// (the polygon stays valid), yet no vertex of the shell - and, with every side taken, no middle of a side either - is
// clear of the other rings: which ring is the shell has to be found out from some other point of it.
// manyTeethPolygon: the same for a convex lattice shell of 8 to 320 sides (side vectors are the primitive lattice
// directions of an upper half-plane and their negatives, times 64, sorted by angle): a tooth at every vertex and at the
// middle of every side, so that the search for a clear point of the shell has to go through every one of them first.
func manyTeethPolygon(t *rapid.T, ox int) [][]vkit.P2 {
	half := rapid.SampledFrom([]int{4, 6, 20, 64, 130, 150, 160}).Draw(t, "mtn")
	type vec struct{ a, b int }
	var dirs []vec
	gcd := func(a, b int) int {
		if a < 0 {
			a = -a
		}
		if b < 0 {
			b = -b
		}
		for b != 0 {
			a, b = b, a%b
		}
		return a
	}
	for r := 1; len(dirs) < half && r < 40; r++ {
		for a := -r; a <= r && len(dirs) < half; a++ {
			for b := 0; b <= r && len(dirs) < half; b++ {
				if (a == -r || a == r || b == r) && (b > 0 || a > 0) && gcd(a, b) == 1 {
					dirs = append(dirs, vec{a, b})
				}
			}
		}
	}
	all := append([]vec{}, dirs...)
	for _, d := range dirs {
		all = append(all, vec{-d.a, -d.b})
	}
	sort.Slice(all, func(i, j int) bool {
		return math.Atan2(float64(all[i].b), float64(all[i].a)) < math.Atan2(float64(all[j].b), float64(all[j].a))
	})
	n := len(all)
	vx, vy := make([]float64, n), make([]float64, n)
	x, y := 0.0, 0.0
	for i, d := range all {
		vx[i], vy[i] = x, y
		x, y = x+64*float64(d.a), y+64*float64(d.b)
	}
	minx := 0.0
	for _, v := range vx {
		minx = math.Min(minx, v)
	}
	shell := make([]vkit.P2, n)
	for i := range shell {
		shell[i] = vkit.MkP(float64(100000*ox)+vx[i]-minx, vy[i]-100000) // (far below and apart from the other members, which stay within 60 units of the x-axis)
	}
	rings := [][]vkit.P2{shell}
	// teeth with lattice vertices: the apex, and two points k steps of the inward direction (dx, dy) further in, one
	// step of its perpendicular to either side
	ref := [][][]vkit.P2{{shell}}
	tooth := func(ax, ay, dx, dy, k float64) {
		if vkit.PIP(vkit.MkP(ax+k*dx, ay+k*dy), ref) != vkit.Inside {
			dx, dy = -dx, -dy // (the interior is on the other side)
		}
		rings = append(rings, []vkit.P2{vkit.MkP(ax, ay), vkit.MkP(ax+k*dx+dy, ay+k*dy-dx), vkit.MkP(ax+k*dx-dy, ay+k*dy+dx)})
	}
	for i := 0; i < n; i++ {
		in, out := all[(i+n-1)%n], all[i] // the sides that meet in vertex i; the interior is on the left of both
		tooth(float64(shell[i][0]), float64(shell[i][1]), -float64(in.b)-float64(out.b), float64(in.a)+float64(out.a), 4)
		j := (i + 1) % n
		tooth((float64(shell[i][0])+float64(shell[j][0]))/2, (float64(shell[i][1])+float64(shell[j][1]))/2, -float64(out.b), float64(out.a), 2)
	}
	return rings
}

func teethPolygon(t *rapid.T, ox int) [][]vkit.P2 {
	if rapid.IntRange(0, 3).Draw(t, "manyteeth") == 1 {
		return manyTeethPolygon(t, ox)
	}
	W, H := 2*rapid.IntRange(12, 20).Draw(t, "tw"), 2*rapid.IntRange(12, 16).Draw(t, "th")
	shell := [][2]int{{0, 0}, {W, 0}, {W, H}, {0, H}}
	if rapid.Bool().Draw(t, "tl") {
		W2, H2 := 2*rapid.IntRange(6, W/2-6).Draw(t, "tw2"), 2*rapid.IntRange(6, H/2-6).Draw(t, "th2")
		shell = [][2]int{{0, 0}, {W, 0}, {W, H2}, {W2, H2}, {W2, H}, {0, H}}
	}
	n := len(shell)
	sp := make([]vkit.P2, n)
	for i, q := range shell {
		sp[i] = ip(ox+q[0], q[1])
	}
	ref := [][][]vkit.P2{{sp}}
	inside := func(x, y float64) bool { return vkit.PIP(vkit.MkP(float64(ox)+x, y), ref) == vkit.Inside }
	rings := [][]vkit.P2{sp}
	tooth := func(ax, ay, dx, dy int) {
		var h []vkit.P2
		if dx != 0 && dy != 0 {
			h = []vkit.P2{ip(ox+ax, ay), ip(ox+ax+2*dx, ay+dy), ip(ox+ax+dx, ay+2*dy)}
		} else {
			h = []vkit.P2{ip(ox+ax, ay), ip(ox+ax+2*dx-dy, ay+2*dy+dx), ip(ox+ax+2*dx+dy, ay+2*dy-dx)}
		}
		a2 := (float64(h[1][0])-float64(h[0][0]))*(float64(h[2][1])-float64(h[0][1])) - (float64(h[2][0])-float64(h[0][0]))*(float64(h[1][1])-float64(h[0][1]))
		if a2 < 0 {
			h[1], h[2] = h[2], h[1]
		}
		rings = append(rings, h)
	}
	for _, q := range shell { // a tooth at every vertex, pointing into the shell along the diagonal that lies inside
		for _, d := range [][2]int{{1, 1}, {-1, 1}, {-1, -1}, {1, -1}} {
			if inside(float64(q[0])+1.5*float64(d[0]), float64(q[1])+1.5*float64(d[1])) && inside(float64(q[0])+2*float64(d[0]), float64(q[1])+float64(d[1])) && inside(float64(q[0])+float64(d[0]), float64(q[1])+2*float64(d[1])) {
				tooth(q[0], q[1], d[0], d[1])
				break
			}
		}
	}
	mode := rapid.SampledFrom([]string{"none", "all", "all", "first", "first", "some"}).Draw(t, "tmids")
	k := rapid.IntRange(1, n-1).Draw(t, "tfirst")
	for i := 0; i < n; i++ {
		take := mode == "all" || (mode == "first" && i < k) || (mode == "some" && rapid.Bool().Draw(t, "tmid"))
		if !take {
			continue
		}
		a, b := shell[i], shell[(i+1)%n]
		mx, my := (a[0]+b[0])/2, (a[1]+b[1])/2
		for _, d := range [][2]int{{0, 1}, {0, -1}, {1, 0}, {-1, 0}} {
			if (d[0] == 0) == (a[1] == b[1]) && inside(float64(mx)+float64(d[0]), float64(my)+float64(d[1])) {
				tooth(mx, my, d[0], d[1])
				break
			}
		}
	}
	return rings
}

// touchingDrawn is set by the generators of polygons whose rings touch in points: such a polygon is only the same
// polygon under transformations that are exact in floating point (a hole's vertex that lies ON a side of the shell
// lies beside it after a rounded scaling)
var touchingDrawn bool

func latticePolygon(t *rapid.T, ox int) [][]vkit.P2 {
	if rapid.IntRange(0, 2).Draw(t, "freehull") == 0 {
		return freeHullPolygon(t, ox)
	}
	if rapid.IntRange(0, 19).Draw(t, "teeth") == 11 {
		touchingDrawn = true
		return teethPolygon(t, ox)
	}
	W, H := rapid.IntRange(6, 30).Draw(t, "W"), rapid.IntRange(6, 20).Draw(t, "H")
	m := 6
	if W >= 8 && H >= 8 && rapid.IntRange(0, 14).Draw(t, "corners") == 9 {
		// a rectangle with a small triangular hole AT a drawn subset of its corners (the hole's vertex is the shell's
		// vertex: the rings touch in a point, the polygon stays valid) - with all four, every vertex of the shell lies on
		// another ring
		touchingDrawn = true
		rings := [][]vkit.P2{{ip(ox, 0), ip(ox+W, 0), ip(ox+W, H), ip(ox, H)}}
		all := rapid.Bool().Draw(t, "allcorners")
		for k, cn := range [][4]int{{0, 0, 1, 1}, {W, 0, -1, 1}, {W, H, -1, -1}, {0, H, 1, -1}} {
			if all || rapid.Bool().Draw(t, "corner") {
				hole := []vkit.P2{ip(ox+cn[0], cn[1]), ip(ox+cn[0]+2*cn[2], cn[1]+cn[3]), ip(ox+cn[0]+cn[2], cn[1]+2*cn[3])}
				if k%2 == 1 { // keep every hole counter-clockwise like the hulls (the orbit code reverses from there)
					hole[1], hole[2] = hole[2], hole[1]
				}
				rings = append(rings, hole)
			}
		}
		return rings
	}
	var shell []vkit.P2
	touch := 1 // y of the corner-pair triangle's first vertex: 1 = clear of the shell, 0 = ON the shell's lower edge
	if rapid.Bool().Draw(t, "staircase") {
		if rapid.IntRange(0, 2).Draw(t, "touching") == 1 {
			// a hole may touch the shell in a point (the polygon stays valid): one vertex of the triangular hole lies on
			// the lower edge y = 0, between two shell vertices
			touch = 0
			touchingDrawn = true
		}
		// lower edge y=0 from x=0..W, upper chain x-monotone from W back to 0 with heights in [H+1,H+m]
		shell = append(shell, ip(ox, 0), ip(ox+W, 0))
		xs := []int{W}
		for x := W - 1; x > 0; x-- {
			if rapid.IntRange(0, 2).Draw(t, "keepx") == 0 {
				xs = append(xs, x)
			}
		}
		xs = append(xs, 0)
		for _, x := range xs {
			shell = append(shell, ip(ox+x, H+rapid.IntRange(1, m).Draw(t, "h")))
		}
		// drop collinear duplicates is not needed: collinear vertices are legal
	} else {
		pts := []vkit.P2{ip(ox, 0), ip(ox+W, 0), ip(ox+W, H), ip(ox, H)}
		n := rapid.IntRange(0, 8).Draw(t, "nextra")
		for i := 0; i < n; i++ {
			pts = append(pts, ip(ox+rapid.IntRange(-m, W+m).Draw(t, "ex"), rapid.IntRange(-m, H+m).Draw(t, "ey")))
		}
		shell = convexHull(pts)
	}
	rings := [][]vkit.P2{shell}
	// holes in cells of the core
	ncx := rapid.IntRange(0, 2).Draw(t, "ncx")
	if ncx > 0 {
		cw := W / ncx
		for k := 0; k < ncx; k++ {
			if cw < 4 || H < 4 {
				break
			}
			if rapid.IntRange(0, 3).Draw(t, "skiphole") == 0 {
				continue
			}
			x0, x1 := k*cw+1, (k+1)*cw-1
			if x1-x0 >= 5 && H >= 8 && (rapid.IntRange(0, 3).Draw(t, "cornerpair") == 2 || touch == 0) {
				// two disjoint holes with NESTED bounding boxes: a right triangle filling the lower-left half of the cell and
				// a small square in the upper-right corner that the triangle leaves free
				rings = append(rings, []vkit.P2{ip(ox+x0, touch), ip(ox+x1, 1), ip(ox+x0, H-1)}, []vkit.P2{ip(ox+x1-1, H-2), ip(ox+x1, H-2), ip(ox+x1, H-1), ip(ox+x1-1, H-1)})
				continue
			}
			var hp []vkit.P2
			nh := rapid.IntRange(3, 6).Draw(t, "nh")
			for i := 0; i < nh; i++ {
				hp = append(hp, ip(ox+rapid.IntRange(x0, x1).Draw(t, "hx"), rapid.IntRange(1, H-1).Draw(t, "hy")))
			}
			hull := convexHull(hp)
			if len(hull) >= 3 {
				rings = append(rings, hull)
			}
		}
	}
	return rings
}

func gen(t *rapid.T) Case {
	var c Case
	c.Kind = rapid.SampledFrom([]string{"poly", "poly", "poly", "line", "buffer", "box", "axis"}).Draw(t, "kind")
	switch c.Kind {
	case "axis":
		// an axis-parallel line: one coordinate shared exactly by all vertices (ordinary, huge or tiny), the other a small
		// integer times a unit of quite another magnitude
		c.AxisShared = vkit.F(rapid.SampledFrom([]float64{0, 1, -7.5, 1000000.1, 0x1p600, -0x1p900, 0x1p-600, 123456.789}).Draw(t, "axisshared"))
		c.AxisUnitExp = rapid.SampledFrom([]int{0, 0, -520, -540, -1000, 500, 900, 3, -30}).Draw(t, "axisunit")
		c.AxisVertical = rapid.Bool().Draw(t, "axisvertical")
		nl := rapid.IntRange(1, 2).Draw(t, "axisnl")
		for i := 0; i < nl; i++ {
			n := rapid.IntRange(2, 6).Draw(t, "axisn")
			l := make([]vkit.P2, n)
			for j := range l {
				l[j] = vkit.MkP(float64(rapid.IntRange(-20, 20).Draw(t, "axism")), 0)
			}
			c.Lines = append(c.Lines, l)
		}
		c.AsMulti = nl > 1 || rapid.Bool().Draw(t, "asmulti")
		c.Pt = vkit.MkP(float64(rapid.IntRange(-25, 25).Draw(t, "axisp")), 0)
		if rapid.IntRange(0, 3).Draw(t, "axisoffset") == 0 {
			c.AxisOff = rapid.IntRange(-9, 9).Draw(t, "axisoff")
		}
	case "poly":
		touchingDrawn = false
		nm := rapid.SampledFrom([]int{1, 1, 2, 3}).Draw(t, "nm")
		c.AsMulti = nm > 1 || rapid.Bool().Draw(t, "asmulti")
		c.Orbit = rapid.SampledFrom([]string{"any", "closed_opposite", "closed_any"}).Draw(t, "orbit")
		for i := 0; i < nm; i++ {
			rings := latticePolygon(t, i*60)
			for j := range rings {
				switch c.Orbit {
				case "any":
					rings[j] = vkit.Respell(t, rings[j])
				default:
					r := rings[j]
					n := len(r)
					rot := rapid.IntRange(0, n-1).Draw(t, "rot")
					rev := j > 0 // hulls are ccw: reverse holes => opposite to shell
					if c.Orbit == "closed_any" {
						rev = rapid.Bool().Draw(t, "rev")
					}
					out := make([]vkit.P2, 0, n+1)
					for k := 0; k < n; k++ {
						idx := (rot + k) % n
						if rev {
							idx = (rot - k + 2*n) % n
						}
						out = append(out, r[idx])
					}
					rings[j] = append(out, out[0])
				}
			}
			if c.Orbit == "closed_opposite" && rapid.Bool().Draw(t, "flipall") {
				for j := range rings {
					r := rings[j]
					for a, b := 0, len(r)-1; a < b; a, b = a+1, b-1 {
						r[a], r[b] = r[b], r[a]
					}
				}
			}
			c.Lattice = append(c.Lattice, rings)
			order := make([]int, len(rings))
			for j := range order {
				order[j] = j
			}
			if len(rings) >= 2 && rapid.IntRange(0, 3).Draw(t, "ringorder") == 1 {
				order = rapid.Permutation(order).Draw(t, "ringperm")
			}
			c.RingOrder = append(c.RingOrder, order)
		}
		c.S, c.Tx, c.Ty = 1, 0, 0
		if rapid.IntRange(0, 2).Draw(t, "xf") == 0 {
			c.S = rapid.OneOf(rapid.SampledFrom([]float64{0.5, 0.001, 1000, 3, 1e-5, 1e-6, 1e-8, 1e-12, 1e-100, 1e6, 1e9, 1e100}), rapid.Float64Range(0.1, 10)).Draw(t, "s")
			c.Tx = rapid.OneOf(rapid.SampledFrom([]float64{0, -7, 100}), rapid.Float64Range(-1000, 1000)).Draw(t, "tx")
			c.Ty = rapid.OneOf(rapid.SampledFrom([]float64{0, 13, -100}), rapid.Float64Range(-1000, 1000)).Draw(t, "ty")
			if c.S < 1e-3 || c.S > 1e5 {
				c.Tx, c.Ty = 0, 0 // extreme scales are taken about the origin (a translation would swamp the shape)
			}
			if touchingDrawn {
				// rings that touch: a power of two and a translation by whole steps of it, both exact
				k := rapid.IntRange(-30, 30).Draw(t, "exactscale")
				c.S = math.Ldexp(1, k)
				c.Tx, c.Ty = c.S*float64(rapid.IntRange(-1000, 1000).Draw(t, "exacttx")), c.S*float64(rapid.IntRange(-1000, 1000).Draw(t, "exactty"))
			}
		}
	case "line":
		nl := rapid.IntRange(1, 3).Draw(t, "nl")
		var cg *rapid.Generator[float64]
		if rapid.Bool().Draw(t, "latticeline") {
			cg = rapid.Map(rapid.IntRange(-20, 20), func(i int) float64 { return float64(i) })
		} else {
			cg = rapid.Float64Range(-100, 100)
		}
		for i := 0; i < nl; i++ {
			n := rapid.IntRange(0, 12).Draw(t, "n")
			if rapid.IntRange(0, 49).Draw(t, "longline") == 0 {
				n = rapid.IntRange(250, 1100).Draw(t, "nlong")
			}
			l := make([]vkit.P2, n)
			for j := range l {
				l[j] = vkit.MkP(cg.Draw(t, "x"), cg.Draw(t, "y"))
				// degenerate members of "all line strings": a vertex repeated (zero-length segment), a vertex revisited later
				if j > 0 {
					switch rapid.IntRange(0, 11).Draw(t, "degenerate") {
					case 0:
						l[j] = l[j-1]
					case 1:
						l[j] = l[rapid.IntRange(0, j-1).Draw(t, "revisit")]
					}
				}
			}
			c.Lines = append(c.Lines, l)
		}
		c.AsMulti = nl > 1 || rapid.Bool().Draw(t, "asmulti")
		c.Pt = vkit.MkP(cg.Draw(t, "px"), cg.Draw(t, "py"))
		if rapid.IntRange(0, 2).Draw(t, "linescaled") == 1 {
			c.LineScaleExp = rapid.OneOf(rapid.IntRange(-60, 60), rapid.IntRange(-1000, 900)).Draw(t, "linescale")
		}
	case "buffer":
		c.Pt = vkit.MkP(rapid.Float64Range(-1e3, 1e3).Draw(t, "px"), rapid.Float64Range(-1e3, 1e3).Draw(t, "py"))
		c.Radius = rapid.OneOf(rapid.Just(0.0), rapid.Float64Range(0, 1e4)).Draw(t, "radius")
		c.Segments = rapid.IntRange(3, 64).Draw(t, "segments")
	case "box":
		c.Lattice = [][][]vkit.P2{{{vkit.MkP(rapid.Float64Range(-100, 100).Draw(t, "x0"), rapid.Float64Range(-100, 100).Draw(t, "y0")),
			vkit.MkP(rapid.Float64Range(0, 50).Draw(t, "w"), rapid.Float64Range(0, 50).Draw(t, "h"))}}}
	}
	return c
}

// exact integer moments of a lattice ring (as spelled, closing segment implicit): A2 = 2*signed area,
// Mx = sum (xi+xj)*cross, My likewise (6*signed area*centroid).
func ringMoments(r []vkit.P2) (A2, Mx, My *big.Int) {
	A2, Mx, My = new(big.Int), new(big.Int), new(big.Int)
	n := len(r)
	for i := 0; i < n; i++ {
		xi, yi := int64(r[i][0]), int64(r[i][1])
		xj, yj := int64(r[(i+1)%n][0]), int64(r[(i+1)%n][1])
		cr := xi*yj - xj*yi
		A2.Add(A2, big.NewInt(cr))
		Mx.Add(Mx, big.NewInt((xi+xj)*cr))
		My.Add(My, big.NewInt((yi+yj)*cr))
	}
	return
}

func ratF(num, den *big.Int) float64 {
	f, _ := new(big.Rat).SetFrac(num, den).Float64()
	return f
}

func transform(r []vkit.P2, s, tx, ty float64) geom.Path {
	out := make(geom.Path, len(r))
	for i, p := range r {
		out[i] = geom.Point{X: s*float64(p[0]) + tx, Y: s*float64(p[1]) + ty}
	}
	return out
}

func runPoly(c Case) (v vkit.Verdict) {
	v.Class("poly_" + c.Orbit)
	// exact area and centroid
	totA2, totMx, totMy := new(big.Int), new(big.Int), new(big.Int) // 2*area, 6*moments (hole-aware)
	allClosed, opposite := true, true
	nholes := 0
	maxabs := 0.0
	var mp geom.MultiPolygon
	memberA2 := []*big.Int{}
	for pi, rings := range c.Lattice {
		var pg geom.Polygon
		mA2 := new(big.Int)
		shellSign := 0
		for j, r := range rings {
			A2, Mx, My := ringMoments(r)
			sgn := A2.Sign()
			if sgn == 0 {
				v.Class("degenerate_skipped")
				return v
			}
			if j == 0 {
				shellSign = sgn
			} else {
				nholes++
				if sgn == shellSign {
					opposite = false
				}
			}
			if r[0] != r[len(r)-1] {
				allClosed = false
			}
			// contribution: shell +|a|*C, hole -|a|*C ; |a|*C = sign(a)*M/6
			w := int64(sgn)
			if j > 0 {
				w = -w
			}
			absA2 := new(big.Int).Abs(A2)
			if j > 0 {
				absA2.Neg(absA2)
			}
			totA2.Add(totA2, absA2)
			mA2.Add(mA2, absA2)
			totMx.Add(totMx, new(big.Int).Mul(Mx, big.NewInt(w)))
			totMy.Add(totMy, new(big.Int).Mul(My, big.NewInt(w)))
			g := transform(r, c.S, c.Tx, c.Ty)
			for _, p := range g {
				maxabs = math.Max(maxabs, math.Max(math.Abs(p.X), math.Abs(p.Y)))
			}
			pg = append(pg, g)
		}
		if pi < len(c.RingOrder) && len(c.RingOrder[pi]) == len(pg) {
			perm := make(geom.Polygon, len(pg))
			for k, j := range c.RingOrder[pi] {
				perm[k] = pg[j]
				if k != j {
					v.Class("rings_in_drawn_order")
				}
			}
			pg = perm
		}
		memberA2 = append(memberA2, mA2)
		mp = append(mp, pg)
	}
	wantArea := c.S * c.S * ratF(totA2, big.NewInt(2))
	den := new(big.Int).Mul(totA2, big.NewInt(3))
	wantCx := c.S*ratF(totMx, den) + c.Tx
	wantCy := c.S*ratF(totMy, den) + c.Ty
	exact := c.S == 1 && c.Tx == 0 && c.Ty == 0
	areaTol := 1e-12*maxabs*maxabs + 1e-13*wantArea
	cTol := 1e-11*maxabs*maxabs*maxabs/wantArea + 1e-12*maxabs
	if exact {
		areaTol = 1e-13 * wantArea
		cTol = 1e-12 * maxabs
	}
	v.NonTrivial = nholes > 0 || len(c.Lattice) > 1 || c.Orbit != "closed_opposite" || true
	if nholes > 0 {
		v.Class("with_holes")
	}
	if len(c.Lattice) > 1 {
		v.Class("multi_member")
	}
	if !exact {
		v.Class("float_transform")
	}
	var P geom.Polygonal = mp
	if !c.AsMulti && len(mp) == 1 {
		P = mp[0]
	}
	// Area: every spelling
	if got := P.Area(); vkit.Off(got-wantArea, areaTol) {
		return v.Fail("%T.Area() = %.17g, exact %.17g (tol %.3g)", P, got, wantArea, areaTol)
	}
	if len(mp) == 1 {
		if got := mp[0].Area(); vkit.Off(got-wantArea, areaTol) {
			return v.Fail("Polygon.Area() = %.17g, exact %.17g", got, wantArea)
		}
	}
	if got := mp.Area(); vkit.Off(got-wantArea, areaTol) {
		return v.Fail("MultiPolygon.Area() = %.17g, exact %.17g", got, wantArea)
	}
	inBox := func(p geom.Point, b *geom.Bounds) bool {
		return p.X >= b.Min.X-cTol && p.X <= b.Max.X+cTol && p.Y >= b.Min.Y-cTol && p.Y <= b.Max.Y+cTol
	}
	// the same region in a spelling the library produces itself: what P.Difference(a box far away) returns (the
	// operations hand their operand back through the clipper's own ring conventions - closing vertices and all)
	if b := mp.Bounds(); !b.Empty() {
		w := b.Max.X - b.Min.X + b.Max.Y - b.Min.Y + 1
		far := &geom.Bounds{Min: geom.Point{X: b.Max.X + 3*w, Y: b.Max.Y + 3*w}, Max: geom.Point{X: b.Max.X + 4*w, Y: b.Max.Y + 4*w}}
		var R geom.Polygonal
		if p := vkit.Catch(func() { R = P.Difference(far) }); p != "" {
			return v.Fail("%T.Difference(a box far away) panicked: %s", P, p)
		}
		if R != nil {
			v.Class("second_hand_spelling")
			if got := R.Area(); vkit.Off(got-wantArea, 4*areaTol) {
				return v.Fail("Area of %T.Difference(a box far away) = %.17g, the polygon's exact area is %.17g (tol %.3g); result %v", P, got, wantArea, 4*areaTol, R)
			}
			_, rIsMulti := R.(geom.MultiPolygon)
			// (Polygon.Centroid is only stated for rings wound opposite to their shell; a result that lists several shells in
			// one Polygon value is not a polygon the centroid clause speaks of)
			if allClosed && (rIsMulti || (opposite && len(mp) == 1)) {
				if got := R.Centroid(); vkit.Off(got.X-wantCx, 4*cTol) || vkit.Off(got.Y-wantCy, 4*cTol) {
					return v.Fail("Centroid of %T.Difference(a box far away) = %v, exact (%.17g, %.17g) (tol %.3g); result %v", P, got, wantCx, wantCy, 4*cTol, R)
				}
			}
		}
	}
	if allClosed {
		v.Class("all_closed")
		// MultiPolygon.Centroid: any per-ring winding
		got := mp.Centroid()
		if vkit.Off(got.X-wantCx, cTol) || vkit.Off(got.Y-wantCy, cTol) {
			return v.Fail("MultiPolygon.Centroid() = %v, exact (%.17g, %.17g) (tol %.3g)", got, wantCx, wantCy, cTol)
		}
		if !inBox(got, mp.Bounds()) {
			return v.Fail("MultiPolygon.Centroid() = %v outside the bounding box %+v", got, *mp.Bounds())
		}
		if opposite {
			v.Class("closed_and_opposite")
			// op.Area promises alternating orientation
			if got := op.Area(P); vkit.Off(got-wantArea, areaTol) {
				return v.Fail("op.Area(%T) = %.17g, exact %.17g", P, got, wantArea)
			}
			if len(mp) == 1 {
				got := mp[0].Centroid()
				if vkit.Off(got.X-wantCx, cTol) || vkit.Off(got.Y-wantCy, cTol) {
					return v.Fail("Polygon.Centroid() = %v, exact (%.17g, %.17g) (tol %.3g)", got, wantCx, wantCy, cTol)
				}
				if !inBox(got, mp[0].Bounds()) {
					return v.Fail("Polygon.Centroid() = %v outside the bounding box", got)
				}
				got2, err := op.Centroid(mp[0])
				if err != nil || vkit.Off(got2.X-wantCx, cTol) || vkit.Off(got2.Y-wantCy, cTol) {
					return v.Fail("op.Centroid() = %v, %v, exact (%.17g, %.17g)", got2, err, wantCx, wantCy)
				}
			}
		}
	}
	return v
}

func runLine(c Case) (v vkit.Verdict) {
	v.Class("line")
	var ml geom.MultiLineString
	wantLen := 0.0
	comp := 0.0
	wantD := math.Inf(1)
	interior := false
	scale := 1.0
	sc, inv := math.Ldexp(1, c.LineScaleExp), math.Ldexp(1, -c.LineScaleExp)
	if c.LineScaleExp != 0 {
		exact := true
		for _, q := range append(vkit.GJ{T: "MultiLineString", Rings: c.Lines}.Flatten(), c.Pt) {
			for _, f := range q {
				if x := float64(f); (x*sc)*inv != x || (x != 0 && math.Abs(x*sc) < 1e-290) || math.IsInf(x*sc, 0) {
					exact = false
				}
			}
		}
		if exact {
			v.Class("line_scaled_by_power_of_two")
		} else {
			sc, inv = 1, 1
		}
	}
	scaled := func(l []vkit.P2) []vkit.P2 {
		out := make([]vkit.P2, len(l))
		for i, q := range l {
			out[i] = vkit.MkP(float64(q[0])*sc, float64(q[1])*sc)
		}
		return out
	}
	for _, l := range c.Lines {
		ml = append(ml, geom.LineString(vkit.GJ{T: "LineString", Pts: scaled(l)}.Geom().(geom.LineString)))
		for i := 0; i+1 < len(l); i++ {
			seg := math.Hypot(float64(l[i+1][0])-float64(l[i][0]), float64(l[i+1][1])-float64(l[i][1]))
			y := seg - comp
			tt := wantLen + y
			comp = (tt - wantLen) - y
			wantLen = tt
			d := vkit.DistPtSeg(c.Pt, l[i], l[i+1])
			if d < wantD {
				wantD = d
				// nearest feature is the interior of the segment?
				interior = d < vkit.DistPtSeg(c.Pt, l[i], l[i])-1e-9 && d < vkit.DistPtSeg(c.Pt, l[i+1], l[i+1])-1e-9
			}
		}
		for _, p := range l {
			scale = math.Max(scale, math.Max(math.Abs(float64(p[0])), math.Abs(float64(p[1]))))
		}
	}
	for _, l := range c.Lines {
		for i := 0; i+1 < len(l); i++ {
			if l[i] == l[i+1] {
				v.Class("line_with_zero_length_segment")
			}
		}
		if len(l) > 200 {
			v.Class("long_line")
		}
	}
	v.NonTrivial = interior || len(c.Lines) > 1
	var L geom.Linear = ml
	if !c.AsMulti && len(ml) == 1 {
		L = ml[0]
	}
	wantLen *= sc // exact: a power of two
	if math.IsInf(wantLen, 0) {
		v.Class("length_not_representable_skipped")
		return v
	}
	if got := L.Length(); vkit.Off(got-wantLen, 1e-12*wantLen) {
		return v.Fail("%T.Length() = %.17g, sum of segment lengths %.17g (lines multiplied by 2^%d)", L, got, wantLen, c.LineScaleExp)
	}
	if got := op.Length(L); vkit.Off(got-wantLen, 1e-12*wantLen) {
		return v.Fail("op.Length(%T) = %.17g, sum of segment lengths %.17g (lines multiplied by 2^%d)", L, got, wantLen, c.LineScaleExp)
	}
	got := L.Distance(vkit.MkP(float64(c.Pt[0])*sc, float64(c.Pt[1])*sc).Pt()) * inv
	if math.IsInf(sc, 0) || sc == 0 {
		return v
	}
	if math.IsInf(wantD, 1) {
		v.Class("line_without_segment")
		if !math.IsInf(got, 1) {
			return v.Fail("%T.Distance = %v for a geometry without any segment", L, got)
		}
		return v
	}
	if vkit.Off(got-wantD, 1e-9*scale) {
		return v.Fail("%T.Distance(%v) = %.17g, reference %.17g", L, c.Pt, got, wantD)
	}
	return v
}

// runAxis: the one-dimensional cases.
func runAxis(c Case) (v vkit.Verdict) {
	v.Class("axis")
	u := math.Ldexp(1, c.AxisUnitExp)
	shared := float64(c.AxisShared)
	mk := func(m, off float64) geom.Point {
		a, b := m*u, shared+off*u
		if c.AxisVertical { // the line runs along y at x = shared
			return geom.Point{X: b, Y: a}
		}
		return geom.Point{X: a, Y: b}
	}
	if c.AxisOff != 0 && shared+float64(c.AxisOff)*u == shared {
		v.Class("axis_offset_lost_in_rounding_skipped")
		return v
	}
	var ml geom.MultiLineString
	wantLen, wantD, maxm := 0.0, math.Inf(1), 1.0
	pm := float64(c.Pt[0])
	for _, l := range c.Lines {
		var ls geom.LineString
		for i, q := range l {
			ls = append(ls, mk(float64(q[0]), 0))
			maxm = math.Max(maxm, math.Abs(float64(q[0])))
			if i+1 < len(l) {
				a, b := float64(q[0]), float64(l[i+1][0])
				wantLen += math.Abs(b - a)
				lo, hi := math.Min(a, b), math.Max(a, b)
				d1 := math.Max(0, math.Max(lo-pm, pm-hi)) // along the line, in units
				if d := math.Hypot(d1, float64(c.AxisOff)); d < wantD {
					wantD = d
				}
			}
		}
		ml = append(ml, ls)
	}
	// the offset of the query point as the library sees it (shared+off*u may round)
	var L geom.Linear = ml
	if !c.AsMulti && len(ml) == 1 {
		L = ml[0]
	}
	v.NonTrivial = true
	v.Class(fmt.Sprintf("axis_shared_%g_unit_2^%d", shared, c.AxisUnitExp))
	wantLen *= u
	if got := L.Length(); vkit.Off(got-wantLen, 1e-12*wantLen) {
		return v.Fail("%T.Length() = %.17g, want %.17g (all vertices share the coordinate %v, the other one is a small integer times 2^%d): %v", L, got, wantLen, shared, c.AxisUnitExp, ml)
	}
	if got := op.Length(L); vkit.Off(got-wantLen, 1e-12*wantLen) {
		return v.Fail("op.Length(%T) = %.17g, want %.17g (all vertices share the coordinate %v, the other one is a small integer times 2^%d): %v", L, got, wantLen, shared, c.AxisUnitExp, ml)
	}
	if c.AxisOff != 0 {
		// the true offset after rounding of shared+off*u
		q := mk(pm, float64(c.AxisOff))
		off := (q.Y - shared) / u
		if c.AxisVertical {
			off = (q.X - shared) / u
		}
		wantD = math.Inf(1)
		for _, l := range c.Lines {
			for i := 0; i+1 < len(l); i++ {
				a, b := float64(l[i][0]), float64(l[i+1][0])
				d1 := math.Max(0, math.Max(math.Min(a, b)-pm, pm-math.Max(a, b)))
				wantD = math.Min(wantD, math.Hypot(d1, off))
			}
		}
	}
	got := L.Distance(mk(pm, float64(c.AxisOff)))
	want := wantD * u
	// allowance: the foot of the perpendicular is located to rounding of the coordinate that varies
	if vkit.Off(got-want, 1e-12*(want+(maxm+math.Abs(pm))*u)) {
		return v.Fail("%T.Distance(%v) = %.17g, want %.17g (all vertices share the coordinate %v, the other one is a small integer times 2^%d): %v", L, mk(pm, float64(c.AxisOff)), got, want, shared, c.AxisUnitExp, ml)
	}
	return v
}

func runBuffer(c Case) (v vkit.Verdict) {
	v.Class("buffer")
	v.NonTrivial = c.Radius > 0
	p := c.Pt.Pt()
	var pg geom.Polygon
	if pn := vkit.Catch(func() { pg = p.Buffer(c.Radius, c.Segments) }); pn != "" {
		return v.Fail("Buffer(%v,%d) panicked: %s", c.Radius, c.Segments, pn)
	}
	if len(pg) != 1 || len(pg[0]) != c.Segments {
		return v.Fail("Buffer(%v,%d) has %d rings / %d vertices", c.Radius, c.Segments, len(pg), len(pg[0]))
	}
	for i, q := range pg[0] {
		th := 2 * math.Pi * float64(i) / float64(c.Segments)
		wx, wy := p.X+c.Radius*math.Cos(th), p.Y+c.Radius*math.Sin(th)
		tol := 1e-12*c.Radius + 1e-13*(math.Abs(p.X)+math.Abs(p.Y))
		if vkit.Off(q.X-wx, tol) || vkit.Off(q.Y-wy, tol) {
			return v.Fail("Buffer vertex %d = %v, want (%v,%v)", i, q, wx, wy)
		}
		if r := math.Hypot(q.X-p.X, q.Y-p.Y); vkit.Off(r-c.Radius, tol) {
			return v.Fail("Buffer vertex %d at distance %v from the centre, want %v", i, r, c.Radius)
		}
	}
	return v
}

func runBox(c Case) (v vkit.Verdict) {
	v.Class("box")
	o, wh := c.Lattice[0][0][0], c.Lattice[0][0][1]
	b := &geom.Bounds{Min: o.Pt(), Max: geom.Point{X: float64(o[0]) + float64(wh[0]), Y: float64(o[1]) + float64(wh[1])}}
	v.NonTrivial = wh[0] > 0 && wh[1] > 0
	wantA := (b.Max.X - b.Min.X) * (b.Max.Y - b.Min.Y)
	if got := b.Area(); vkit.Off(got-wantA, 1e-12*wantA) {
		return v.Fail("Bounds.Area = %v want %v", got, wantA)
	}
	cc := b.Centroid()
	if vkit.Off(cc.X-(b.Min.X+b.Max.X)/2, 1e-12*(1+math.Abs(cc.X))) || vkit.Off(cc.Y-(b.Min.Y+b.Max.Y)/2, 1e-12*(1+math.Abs(cc.Y))) {
		return v.Fail("Bounds.Centroid = %v for %+v", cc, *b)
	}
	// the box as a polygon has the same measures
	pg := b.Polygons()[0]
	if got := pg.Area(); vkit.Off(got-wantA, 1e-9*(wantA+1)) {
		return v.Fail("Bounds.Polygons()[0].Area = %v want %v", got, wantA)
	}
	return v
}

func run(c Case) vkit.Verdict {
	switch c.Kind {
	case "poly":
		return runPoly(c)
	case "line":
		return runLine(c)
	case "buffer":
		return runBuffer(c)
	case "axis":
		return runAxis(c)
	}
	return runBox(c)
}

func TestProp(t *testing.T) {
	vkit.Main(t, vkit.Spec[Case]{
		ID: "C03",
		Rule: "rapid: lattice polygons valid by construction (shell = convex hull or x-monotone staircase around a core box, 0-2 convex lattice holes in disjoint " +
			"cells strictly inside the core, multi-polygons of 1-3 members in disjoint cells) under the spelling orbit (per-ring reversal, rotation, closed/" +
			"unclosed; 'closed_opposite' = all rings closed, holes wound opposite to the shell, optionally all reversed; 'closed_any' = closed, arbitrary per-ring " +
			"winding), optionally mapped by a float similarity (scale from 1e-100 to 1e100, translation for moderate scales); exact area and centroid from math/big integer moments. Area/MultiPolygon.Area for " +
			"every spelling; MultiPolygon.Centroid for closed rings under every per-ring winding; Polygon.Centroid, op.Centroid and op.Area for closed rings with " +
			"opposite holes; centroid inside the bounding box. Line strings / multi-line strings (0-12 vertices, 1 in 50 with 250-1100; lattice or float; 1 vertex in 12 repeats its predecessor - a zero-length segment - and 1 in 12 revisits an earlier vertex; a third of the cases handed to geom multiplied exactly by 2^k, k in +-60 or -1000..900) for Length (compensated sum) and " +
			"Distance (independent point-segment formula); Point.Buffer vertices; Bounds.Area/Centroid. Every polygon case is counted non-trivial (each is one orbit " +
			"element of a shape with holes/members/orientation choice), line cases when the nearest feature is a segment interior or >=2 members, buffers with radius>0. " +
			"Distinct by case hash." +
			" Round 11: 'teeth' polygons (1 lattice polygon in 20): a small triangular hole at every vertex of a rectangle or L-shaped shell and at the middle of no, every, the first k or some of its sides." +
			" Round 12: a quarter of the teeth polygons are convex lattice shells of 8-320 sides; Area and (where stated) Centroid are also taken of P.Difference(a box far away); polygons whose rings touch get exact transforms only.",
		Assumptions: []string{"valid polygons only (holes strictly inside, nothing touching)", "tolerances: area 1e-12*maxabs^2, centroid 1e-11*maxabs^3/area (exact lattice: 1e-12 relative)"},
		Gen:         gen,
		Run:         run,
	})
}
