// C01 — Polygon boolean operations implement point-set semantics.
package c01

import (
	"fmt"
	"math"
	"os"
	"strconv"
	"testing"

	"github.com/ctessum/geom"
	"pgregory.net/rapid"
	"verif/vkit"
)

type Case struct {
	A      vkit.GJ `json:"a"` // Polygon | MultiPolygon | Bounds
	B      vkit.GJ `json:"b"`
	Config string  `json:"config"` // how B was placed relative to A (generator label)
	// ScaleExp k: the operations run on both operands multiplied exactly by 2^k and the result is divided by 2^k again
	// before the oracle (which works on the unscaled case) looks at it
	ScaleExp int `json:"scale_exp,omitempty"`
	// Respelled: an operand lists several shells in one Polygon value, or its rings in an order other than shell first
	Respelled bool `json:"respelled,omitempty"`
	// EmptyA / EmptyB: the operand is a value without any area (the drawn A or B is not used): NewBounds (geom.NewBounds(),
	// the box before it is extended), InvertedBounds (Max < Min, laid over the other operand), Polygon{}, Polygon(nil),
	// Polygon{{}}, MultiPolygon{}, MultiPolygon{{}}
	// Moved ("A" | "B"): after the four operations have been judged, that operand's coordinates are rewritten in place
	// (same slices) - moved far away, then back - and the operations are run and judged again each time
	Moved  string `json:"moved,omitempty"`
	EmptyA string `json:"empty_a,omitempty"`
	EmptyB string `json:"empty_b,omitempty"`
}

var emptyKinds = []string{"NewBounds", "NewBounds", "InvertedBounds", "InvertedBounds", "Polygon{}", "Polygon(nil)", "Polygon{{}}", "MultiPolygon{}", "MultiPolygon{{}}"}

// emptyGeom builds the operand without area; (cx, cy, q) place the inverted box over the other operand.
func emptyGeom(kind string, cx, cy, q float64) geom.Polygonal {
	switch kind {
	case "NewBounds":
		return geom.NewBounds()
	case "InvertedBounds":
		return &geom.Bounds{Min: geom.Point{X: cx + q, Y: cy + q}, Max: geom.Point{X: cx - q, Y: cy - q}}
	case "Polygon{}":
		return geom.Polygon{}
	case "Polygon(nil)":
		return geom.Polygon(nil)
	case "Polygon{{}}":
		return geom.Polygon{{}}
	case "MultiPolygon{}":
		return geom.MultiPolygon{}
	}
	return geom.MultiPolygon{{}}
}

func emptyType(kind string) string {
	switch kind {
	case "NewBounds", "InvertedBounds":
		return "Bounds"
	case "MultiPolygon{}", "MultiPolygon{{}}":
		return "MultiPolygon"
	}
	return "Polygon"
}

var kinds = []string{"Polygon", "MultiPolygon", "Bounds"}

func gen(t *rapid.T) Case {
	var c Case
	ka := rapid.SampledFrom(kinds).Draw(t, "kindA")
	kb := rapid.SampledFrom(kinds).Draw(t, "kindB")
	snap := rapid.IntRange(0, 3).Draw(t, "snap") == 0
	R := rapid.SampledFrom([]float64{1, 10, 100}).Draw(t, "R")
	ox := rapid.SampledFrom([]float64{0, 0, 1000, -50}).Draw(t, "ox")
	A := vkit.GenPolygonal(t, ka, ox, ox/2, R, snap)
	c.A = A.G
	c.Config = rapid.SampledFrom([]string{"overlap", "overlap", "overlap", "nested", "inhole", "diagonal", "bboxdisjoint", "far", "sliver", "sliver", "speck", "island"}).Draw(t, "config")
	if f := os.Getenv("VERIF_C01_FORCECFG"); f != "" { // generator experiments only
		c.Config = f
	}
	if c.Config == "island" {
		// a lake with an island: one operand is a multi-polygon of a polygon with a round hole (10-20 vertices, so that the
		// hole's outline keeps well away from the middle of the lake), a second polygon inside that hole, and sometimes a
		// third one far away, stored in any order; the other operand is small, lies in the lake clear of its shore and
		// reaches over the island. Either may be the receiver.
		ring := func(n int, r, jit float64, lbl string) []vkit.P2 {
			out := make([]vkit.P2, n)
			ph := rapid.Float64Range(0, 2*math.Pi).Draw(t, lbl+"ph")
			for i := range out {
				rr := r * (1 + jit*rapid.Float64Range(-1, 1).Draw(t, lbl+"j"))
				a := ph + 2*math.Pi*float64(i)/float64(n)
				out[i] = vkit.MkP(ox+rr*math.Cos(a), ox/2+rr*math.Sin(a))
			}
			return out
		}
		shell := ring(rapid.IntRange(6, 14).Draw(t, "ishelln"), R, 0.08, "ishell")
		lake := ring(rapid.IntRange(10, 20).Draw(t, "ilaken"), 0.5*R, 0.04, "ilake")
		X := [][]vkit.P2{vkit.Respell(t, shell), vkit.Respell(t, lake)}
		Y := vkit.GenPolygonal(t, "Polygon", ox, ox/2, R*rapid.Float64Range(0.1, 0.2).Draw(t, "iisland"), false).G.Rings
		members := [][][]vkit.P2{X, Y}
		if rapid.IntRange(0, 2).Draw(t, "ithird") == 0 {
			members = append(members, vkit.GenPolygonal(t, "Polygon", ox+3*R, ox/2, R*0.5, false).G.Rings)
		}
		members = rapid.Permutation(members).Draw(t, "iorder")
		c.A = vkit.GJ{T: "MultiPolygon", Polys: members}
		kb2 := rapid.SampledFrom([]string{"Bounds", "Bounds", "Polygon", "MultiPolygon"}).Draw(t, "ikb")
		c.B = vkit.GenPolygonal(t, kb2, ox+R*rapid.Float64Range(-0.1, 0.1).Draw(t, "idx"), ox/2+R*rapid.Float64Range(-0.1, 0.1).Draw(t, "idy"), R*rapid.Float64Range(0.06, 0.15).Draw(t, "irb"), false).G
		if kb2 == "MultiPolygon" && len(c.B.Polys) > 1 {
			c.B.Polys = c.B.Polys[:1] // further members would be laid out to the right, across the shore
		}
		if rapid.Bool().Draw(t, "iswap") {
			c.A, c.B = c.B, c.A
		}
		return c
	}
	if c.Config == "sliver" {
		// a long thin hole (a canal) through the middle of A, and a box (or small polygon) laid across it: the corners of B
		// are inside A, no vertex of A is inside B, yet A's boundary passes through B
		shell := vkit.StarRing(t, ox, ox/2, R, 5, 12, 0.6)
		rin := vkit.Inradius(shell, ox, ox/2)
		phi := rapid.Float64Range(0, math.Pi).Draw(t, "sliverdir")
		L, w := 0.7*rin, rin*rapid.Float64Range(0.01, 0.08).Draw(t, "sliverw")
		ux, uy := math.Cos(phi), math.Sin(phi)
		hole := []vkit.P2{vkit.MkP(ox-L*ux+w*uy, ox/2-L*uy-w*ux), vkit.MkP(ox+L*ux+w*uy, ox/2+L*uy-w*ux),
			vkit.MkP(ox+L*ux-w*uy, ox/2+L*uy+w*ux), vkit.MkP(ox-L*ux-w*uy, ox/2-L*uy+w*ux)}
		rings := [][]vkit.P2{vkit.Respell(t, shell), vkit.Respell(t, hole)}
		if snap {
			vkit.Snap(rings, 1.0/1024)
		}
		if ka == "MultiPolygon" {
			c.A = vkit.GJ{T: "MultiPolygon", Polys: [][][]vkit.P2{rings}}
		} else {
			c.A = vkit.GJ{T: "Polygon", Rings: rings}
		}
		if kb == "MultiPolygon" {
			kb = "Bounds"
		}
		hb := rin * rapid.Float64Range(0.2, 0.45).Draw(t, "sliverbox")
		// B is centred near the canal, or (two thirds of the cases) moved sideways from it by up to 1.3 times its own half
		// size, so that the canal cuts across one corner region of B only (or just misses it)
		side := 0.0
		if rapid.IntRange(0, 2).Draw(t, "slivercorner") > 0 {
			side = hb * rapid.Float64Range(-1.3, 1.3).Draw(t, "sliverside")
		}
		c.B = vkit.GenPolygonal(t, kb, ox+rin*rapid.Float64Range(-0.1, 0.1).Draw(t, "sdx")-side*uy, ox/2+rin*rapid.Float64Range(-0.1, 0.1).Draw(t, "sdy")+side*ux, hb, snap).G
		if rapid.Bool().Draw(t, "sliverswap") { // the box as receiver, the polygon as argument
			c.A, c.B = c.B, c.A
		}
		return c
	}
	ang := rapid.Float64Range(0, 2*math.Pi).Draw(t, "ang")
	var bx, by, RB float64
	swapAB := false
	switch c.Config {
	case "overlap":
		d := R * rapid.Float64Range(0, 1.3).Draw(t, "d")
		bx, by = A.Cx+d*math.Cos(ang), A.Cy+d*math.Sin(ang)
		RB = R * rapid.Float64Range(0.3, 1.5).Draw(t, "RB")
	case "nested":
		d := A.Rin * rapid.Float64Range(0, 0.6).Draw(t, "d")
		bx, by = A.Cx+d*math.Cos(ang), A.Cy+d*math.Sin(ang)
		RB = A.Rin * rapid.Float64Range(0.05, 0.35).Draw(t, "RB")
	case "inhole":
		if len(A.Holes) > 0 {
			h := A.Holes[rapid.IntRange(0, len(A.Holes)-1).Draw(t, "hole")]
			bx, by = h[0], h[1]
			RB = h[2] * 0.5 * rapid.Float64Range(0.2, 0.6).Draw(t, "RB") // hole radii >= 0.5*h[2]; gaps<pi keep an inscribed disc
			RB *= 0.3
			if A.G.T == "MultiPolygon" && rapid.Bool().Draw(t, "island") {
				// an island in the lake: one more member of A lies inside the hole (stored before or after the member whose
				// hole it is), and B - still clear of the hole's outline - reaches over it
				ri := 0.5 * h[2]
				Y := vkit.GenPolygonal(t, "Polygon", h[0], h[1], ri*rapid.Float64Range(0.25, 0.45).Draw(t, "islandr"), snap)
				polys := append([][][]vkit.P2{}, A.G.Polys...)
				pos := rapid.IntRange(0, len(polys)).Draw(t, "islandpos")
				polys = append(polys[:pos], append([][][]vkit.P2{Y.G.Rings}, polys[pos:]...)...)
				A.G.Polys = polys
				c.A = A.G
				bx, by = h[0]+ri*rapid.Float64Range(-0.2, 0.2).Draw(t, "islanddx"), h[1]+ri*rapid.Float64Range(-0.2, 0.2).Draw(t, "islanddy")
				RB = ri * rapid.Float64Range(0.15, 0.35).Draw(t, "islandrb")
				swapAB = rapid.Bool().Draw(t, "islandswap") // the operand in the lake as the receiver
			}
		} else {
			bx, by = A.Cx, A.Cy
			RB = A.Rin * 0.3
		}
	case "diagonal":
		s := rapid.SampledFrom([]float64{1, -1}).Draw(t, "sx")
		s2 := rapid.SampledFrom([]float64{1, -1}).Draw(t, "sy")
		RB = R * rapid.Float64Range(0.5, 1.1).Draw(t, "RB")
		f := rapid.Float64Range(1.5, 1.7).Draw(t, "f")
		bx, by = A.Cx+s*f*R, A.Cy+s2*f*R
	case "bboxdisjoint":
		RB = R * rapid.Float64Range(0.3, 1).Draw(t, "RB")
		bx, by = A.Cx-(R+RB)*rapid.Float64Range(1.05, 2).Draw(t, "f"), A.Cy+R*rapid.Float64Range(-2, 2).Draw(t, "dy")
		if rapid.Bool().Draw(t, "vertical") {
			bx, by = A.Cx+R*rapid.Float64Range(-1, 1).Draw(t, "dx"), A.Cy+(R+RB)*rapid.Float64Range(1.05, 2).Draw(t, "f2")
		}
	case "far":
		RB = R * rapid.Float64Range(0.3, 1).Draw(t, "RB")
		bx, by = A.Cx+1000*R*math.Cos(ang), A.Cy+1000*R*math.Sin(ang)
	case "speck":
		// B is 1e4 to 1e9 times smaller than A: inside A (clear of its boundary), or just outside it
		RB = R * math.Pow(10, -float64(rapid.IntRange(4, 9).Draw(t, "speckexp")))
		d := A.Rin * rapid.Float64Range(0, 0.5).Draw(t, "d")
		if rapid.Bool().Draw(t, "speckoutside") {
			d = R * rapid.Float64Range(1.1, 1.6).Draw(t, "dout")
		}
		bx, by = A.Cx+d*math.Cos(ang), A.Cy+d*math.Sin(ang)
	}
	c.B = vkit.GenPolygonal(t, kb, bx, by, RB, snap).G
	// spellings the library itself produces or accepts: the rings of a multi-polygon listed in ONE Polygon value (what
	// every operation returns for a result of several pieces, so what a chained a.XOr(b).XOr(c) passes on), and rings
	// in any order (a hole listed before its shell)
	respell := func(g vkit.GJ, lbl string) vkit.GJ {
		if g.T == "MultiPolygon" && rapid.IntRange(0, 3).Draw(t, "flatten"+lbl) == 2 {
			var rings [][]vkit.P2
			for _, p := range g.Polys {
				rings = append(rings, p...)
			}
			g = vkit.GJ{T: "Polygon", Rings: rings}
			c.Respelled = true
		}
		if g.T == "Polygon" && len(g.Rings) >= 2 && rapid.IntRange(0, 3).Draw(t, "ringorder"+lbl) == 2 {
			g.Rings = rapid.Permutation(g.Rings).Draw(t, "ringperm"+lbl)
			c.Respelled = true
		}
		return g
	}
	c.A, c.B = respell(c.A, "A"), respell(c.B, "B")
	if rapid.IntRange(0, 11).Draw(t, "emptyoperand") == 5 {
		// one operand without any area, in either position
		k := rapid.SampledFrom(emptyKinds).Draw(t, "emptykind")
		if rapid.Bool().Draw(t, "emptyfirst") {
			c.EmptyA, c.A = k, vkit.GJ{T: "Polygon"}
		} else {
			c.EmptyB, c.B = k, vkit.GJ{T: "Polygon"}
		}
		c.Config = "emptyoperand"
	}
	if rapid.IntRange(0, 3).Draw(t, "movedhistory") == 1 {
		c.Moved = rapid.SampledFrom([]string{"A", "B", "B"}).Draw(t, "moved")
	}
	if c.A.T == "Bounds" && c.B.T == "Bounds" && c.EmptyA == "" && c.EmptyB == "" && rapid.IntRange(0, 2).Draw(t, "boxscale") == 1 {
		// two boxes: any magnitude (their Intersection is corner arithmetic)
		c.ScaleExp = rapid.IntRange(-1040, 900).Draw(t, "boxscaleexp")
	} else if rapid.IntRange(0, 2).Draw(t, "scaled") == 1 {
		c.ScaleExp = rapid.OneOf(rapid.IntRange(-10, 40), rapid.IntRange(-10, 40), rapid.IntRange(-10, 40), rapid.IntRange(-60, -10), rapid.IntRange(-200, 200)).Draw(t, "scale_exp")
	}
	if swapAB && c.EmptyA == "" && c.EmptyB == "" {
		c.A, c.B = c.B, c.A
	}
	if f := os.Getenv("VERIF_C01_FORCEK"); f != "" { // threshold experiments only (DESIGN.md section 5, tiny_absolute_extent)
		c.ScaleExp, _ = strconv.Atoi(f)
	}
	return c
}

func polysOf(g vkit.GJ) [][][]vkit.P2 {
	switch g.T {
	case "Polygon":
		return [][][]vkit.P2{g.Rings}
	case "MultiPolygon":
		return g.Polys
	case "Bounds":
		mn, mx := g.Pts[0], g.Pts[1]
		return [][][]vkit.P2{{{mn, {mx[0], mn[1]}, mx, {mn[0], mx[1]}}}}
	}
	return nil
}

var opNames = []string{"Intersection", "Union", "Difference", "XOr"}

func opTruth(op int, a, b bool) bool {
	switch op {
	case 0:
		return a && b
	case 1:
		return a || b
	case 2:
		return a && !b
	}
	return a != b
}

func apply(op int, a, b geom.Polygonal) geom.Polygonal {
	switch op {
	case 0:
		return a.Intersection(b)
	case 1:
		return a.Union(b)
	case 2:
		return a.Difference(b)
	}
	return a.XOr(b)
}

// resultPolys extracts rings from a result; a nil interface or nil pointer is the empty region.
func resultPolys(r geom.Polygonal, inv float64) ([][][]vkit.P2, bool) {
	if r == nil {
		return nil, true
	}
	if b, ok := r.(*geom.Bounds); ok && b == nil {
		return nil, true
	}
	var out [][][]vkit.P2
	for _, p := range r.Polygons() {
		var rings [][]vkit.P2
		for _, ring := range p {
			rr := make([]vkit.P2, len(ring))
			for i, q := range ring {
				rr[i] = vkit.MkP(q.X*inv, q.Y*inv)
			}
			rings = append(rings, rr)
		}
		out = append(out, rings)
	}
	return out, false
}

// scaleGJ multiplies every coordinate of a Polygon / MultiPolygon / Bounds by f.
func scaleGJ(g vkit.GJ, f float64) vkit.GJ {
	if f == 1 {
		return g
	}
	m := func(r []vkit.P2) []vkit.P2 {
		out := make([]vkit.P2, len(r))
		for i, p := range r {
			out[i] = vkit.MkP(float64(p[0])*f, float64(p[1])*f)
		}
		return out
	}
	o := vkit.GJ{T: g.T}
	if g.Pts != nil {
		o.Pts = m(g.Pts)
	}
	for _, r := range g.Rings {
		o.Rings = append(o.Rings, m(r))
	}
	for _, p := range g.Polys {
		var pp [][]vkit.P2
		for _, r := range p {
			pp = append(pp, m(r))
		}
		o.Polys = append(o.Polys, pp)
	}
	return o
}

func bbox(polys [][][]vkit.P2) (x0, y0, x1, y1 float64) {
	x0, y0, x1, y1 = math.Inf(1), math.Inf(1), math.Inf(-1), math.Inf(-1)
	for _, p := range polys {
		for _, r := range p {
			for _, q := range r {
				x0, y0 = math.Min(x0, float64(q[0])), math.Min(y0, float64(q[1]))
				x1, y1 = math.Max(x1, float64(q[0])), math.Max(y1, float64(q[1]))
			}
		}
	}
	return
}

// validOperand is an independent validity test of a generated operand (so that a generator mistake cannot
// become a false alarm): within the operand no two edges come within margin of each other except neighbours in a
// ring at their shared vertex, and every ring is a shell (inside no other ring) or a hole of a shell (inside exactly
// one other ring, which is a shell) - whatever the grouping and order of the rings.
func validOperand(polys [][][]vkit.P2, margin float64) bool {
	type re struct {
		a, b       vkit.P2
		poly, ring int
		idx, n     int
	}
	var es []re
	for pi, p := range polys {
		for ri, r := range p {
			rr := r
			if len(rr) >= 2 && rr[0] == rr[len(rr)-1] {
				rr = rr[:len(rr)-1]
			}
			if len(rr) < 3 {
				return false
			}
			for i := range rr {
				if rr[i] == rr[(i+1)%len(rr)] {
					return false
				}
				es = append(es, re{rr[i], rr[(i+1)%len(rr)], pi, ri, i, len(rr)})
			}
			if math.Abs(vkit.RingAreaSigned(rr)) <= margin*margin {
				return false
			}
		}
	}
	for i := range es {
		for j := i + 1; j < len(es); j++ {
			e, f := es[i], es[j]
			if e.poly == f.poly && e.ring == f.ring {
				d := f.idx - e.idx
				if d == 1 || d == e.n-1 {
					// neighbours: the far end points must stay clear of the other edge
					if d == 1 && (vkit.DistPtSeg(f.b, e.a, e.b) <= margin || vkit.DistPtSeg(e.a, f.a, f.b) <= margin) {
						return false
					}
					if d == e.n-1 && (vkit.DistPtSeg(e.b, f.a, f.b) <= margin || vkit.DistPtSeg(f.a, e.a, e.b) <= margin) {
						return false
					}
					continue
				}
			}
			if vkit.SegSegDist(e.a, e.b, f.a, f.b) <= margin {
				return false
			}
		}
	}
	// nesting, independent of how the rings are grouped and ordered
	var rings [][]vkit.P2
	for _, p := range polys {
		rings = append(rings, p...)
	}
	inside := make([][]int, len(rings))
	for i, r := range rings {
		for j, q := range rings {
			if i == j {
				continue
			}
			switch vkit.PIP(r[0], [][][]vkit.P2{{q}}) {
			case vkit.Inside:
				inside[i] = append(inside[i], j)
			case vkit.OnEdge:
				return false
			}
		}
	}
	// (rings that keep clear of each other nest like a tree: a ring inside an even number of others is a shell, inside an
	// odd number a hole - an island in a lake is inside two. What is excluded is a ring inside another one at the same
	// parity without anything in between, which the tree shape rules out by itself.)
	for i := range rings {
		for _, j := range inside[i] {
			if len(inside[j]) >= len(inside[i]) {
				return false
			}
		}
	}
	return true
}

// nearVerticalEdge recognises the inputs of known finding `near_vertical_edge`: some operand edge whose end points
// differ in x by a non-zero amount below 1e-12 of the operands' extent (the sweep-line clipper in the
// polyclip-go dependency mis-orders such an edge).
func nearVerticalEdge(c Case) bool {
	pa, pb := polysOf(c.A), polysOf(c.B)
	ax0, ay0, ax1, ay1 := bbox(pa)
	bx0, by0, bx1, by1 := bbox(pb)
	if c.EmptyA != "" { // an operand without vertices has no extent: the other one alone sets the scale
		ax0, ay0, ax1, ay1 = bx0, by0, bx1, by1
	}
	if c.EmptyB != "" {
		bx0, by0, bx1, by1 = ax0, ay0, ax1, ay1
	}
	scale := math.Max(math.Max(ax1-ax0, ay1-ay0), math.Max(bx1-bx0, by1-by0))
	scale = math.Max(scale, math.Max(math.Max(math.Abs(ax0), math.Abs(ax1)), math.Max(math.Abs(bx0), math.Abs(bx1))))
	for _, e := range append(vkit.EdgesOf(pa, 0), vkit.EdgesOf(pb, 1)...) {
		if dx := math.Abs(float64(e.A[0]) - float64(e.B[0])); dx != 0 && dx < 1e-12*scale {
			return true
		}
	}
	return false
}

// tinyAbsoluteScale recognises the inputs of known finding `absolute_tolerances_at_tiny_scale`: the dependency
// polyclip-go compares against two ABSOLUTE constants - intersection points are snapped to segment end points within
// 8e-14 (absolute once coordinates are below 1), and two (pieces of) segments count as parallel when
// cross^2 <= 1e-21*len0*len1 (lengths, not squared lengths, so the test is len0*len1*sin^2(angle) <= 1e-21). Both are
// harmless at ordinary magnitudes. With the general-position margin m = 1e-7*s used here (s = the larger operand's
// extent as handed to the operation) the pieces on either side of a crossing are at least m/sin(angle) long, so
// len0*len1*sin^2 >= 1e-14*s^2, which stays above ten times the constant exactly when s >= 1e-3; snapping needs
// m < 8e-14*sqrt(2), i.e. s < 1.2e-6. The finding is therefore the class s < 1e-3 (observed: wrong regions - an
// Intersection that is empty or keeps area the operands do not share - from s = 5e-6 down, none seen above).
func tinyAbsoluteScale(c Case) bool {
	if boxPair(c) {
		return false // two boxes: their Intersection does not go near the clipper and is judged at any scale (see run)
	}
	return tinyScale(c)
}

func tinyScale(c Case) bool {
	if c.ScaleExp >= 0 {
		return false
	}
	pa, pb := polysOf(c.A), polysOf(c.B)
	ax0, ay0, ax1, ay1 := bbox(pa) // (an operand without vertices has the extent -Inf and drops out of the maximum)
	bx0, by0, bx1, by1 := bbox(pb)
	scale := math.Max(math.Max(ax1-ax0, ay1-ay0), math.Max(bx1-bx0, by1-by0))
	return scale*math.Ldexp(1, c.ScaleExp) < 1e-3
}

// boxPair: both operands are (non-empty) boxes.
func boxPair(c Case) bool {
	return c.A.T == "Bounds" && c.B.T == "Bounds" && c.EmptyA == "" && c.EmptyB == ""
}

func run(c Case) (v vkit.Verdict) {
	pa, pb := polysOf(c.A), polysOf(c.B)
	// two boxes multiplied by 2^k for k far outside the clipper's working range: only Intersection (computed on the
	// corners) is judged there, the other three operations go through the clipper (known finding at tiny scales)
	onlyIntersection := boxPair(c) && (tinyScale(c) || c.ScaleExp > 200)
	ta, tb := c.A.T, c.B.T // operand types for the messages
	if c.EmptyA != "" {
		pa, ta = nil, emptyType(c.EmptyA)
	}
	if c.EmptyB != "" {
		pb, tb = nil, emptyType(c.EmptyB)
	}
	if c.EmptyA != "" && c.EmptyB != "" {
		return v
	}
	ea, eb := vkit.EdgesOf(pa, 0), vkit.EdgesOf(pb, 1)
	ax0, ay0, ax1, ay1 := bbox(pa)
	bx0, by0, bx1, by1 := bbox(pb)
	scale := math.Max(math.Max(ax1-ax0, ay1-ay0), math.Max(bx1-bx0, by1-by0))
	// general position: no vertex of one operand within margin of an edge of the other
	margin := 1e-7 * scale
	for _, e := range ea {
		if vkit.MinDistToEdges(e.A, eb) <= margin {
			v.Class("not_general_position_skipped")
			return v
		}
	}
	for _, e := range eb {
		if vkit.MinDistToEdges(e.A, ea) <= margin {
			v.Class("not_general_position_skipped")
			return v
		}
	}
	// (each operand is judged on its own size: a speck next to a large operand is a valid polygon like any other)
	ma, mb := 1e-7*math.Max(ax1-ax0, ay1-ay0), 1e-7*math.Max(bx1-bx0, by1-by0)
	if !(ma > 0) || ma > margin {
		ma = margin
	}
	if !(mb > 0) || mb > margin {
		mb = margin
	}
	if !validOperand(pa, ma) || !validOperand(pb, mb) {
		v.Class("invalid_operand_skipped")
		v.Class("invalid_operand_skipped_config_" + c.Config)
		return v
	}
	// configuration class, measured
	crossings := 0
	for _, e := range ea {
		for _, f := range eb {
			if _, _, ok := vkit.SegIntersection(e.A, e.B, f.A, f.B); ok {
				crossings++
			}
		}
	}
	bboxDisjoint := ax1 < bx0 || bx1 < ax0 || ay1 < by0 || by1 < ay0
	oneAxis := bboxDisjoint && !((ax1 < bx0 || bx1 < ax0) && (ay1 < by0 || by1 < ay0))
	cfg := "crossing"
	if c.EmptyA != "" || c.EmptyB != "" {
		cfg = "one_operand_without_area"
		v.Class("empty_operand_" + c.EmptyA + c.EmptyB)
	} else if crossings == 0 {
		switch {
		case bboxDisjoint && oneAxis:
			cfg = "bbox_disjoint_one_axis"
		case bboxDisjoint:
			cfg = "bbox_disjoint_both_axes"
		default:
			bv := pb[0][0][0]
			av := pa[0][0][0]
			switch {
			case vkit.PIP(bv, pa) == vkit.Inside:
				cfg = "B_inside_A"
			case vkit.PIP(av, pb) == vkit.Inside:
				cfg = "A_inside_B"
			default:
				// B inside a hole of A (inside some ring of A but outside A), or merely disjoint with overlapping boxes
				inRing := false
				for _, p := range pa {
					for _, r := range p {
						if vkit.PIP(bv, [][][]vkit.P2{{r}}) == vkit.Inside {
							inRing = true
						}
					}
				}
				if inRing {
					cfg = "B_in_hole_of_A"
				} else {
					cfg = "disjoint_bbox_overlap"
				}
			}
		}
	}
	v.Class("cfg_" + cfg)
	v.Class("kinds_" + ta + "_" + tb)
	if c.Respelled {
		v.Class("several_shells_in_one_polygon_or_hole_first")
	}
	v.NonTrivial = true // every class above is one where either the clipper or a shortcut acts; far-apart is bbox_disjoint

	sc, inv := 1.0, 1.0
	if c.ScaleExp != 0 {
		sc, inv = math.Ldexp(1, c.ScaleExp), math.Ldexp(1, -c.ScaleExp)
		exact := true
		for _, g := range []vkit.GJ{c.A, c.B} {
			for _, q := range g.Flatten() {
				for _, f := range q {
					if x := float64(f); (x*sc)*inv != x || (x != 0 && math.Abs(x*sc) < 1e-290) || math.IsInf(x*sc, 0) {
						exact = false
					}
				}
			}
		}
		if exact {
			v.Class("scaled_by_power_of_two")
		} else {
			sc, inv = 1, 1
			v.Class("scaling_not_exact_run_unscaled")
		}
	}
	sga, sameA := vkit.SharedGeom(scaleGJ(c.A, sc))
	sgb, sameB := vkit.SharedGeom(scaleGJ(c.B, sc))
	ga, gb := sga.(geom.Polygonal), sgb.(geom.Polygonal)
	if c.EmptyA != "" || c.EmptyB != "" {
		// the inverted box lies over the middle of the other operand
		x0, y0, x1, y1 := ax0, ay0, ax1, ay1
		if c.EmptyA != "" {
			x0, y0, x1, y1 = bx0, by0, bx1, by1
		}
		cx, cy, q := (x0+x1)/2*sc, (y0+y1)/2*sc, math.Min(x1-x0, y1-y0)/4*sc
		if c.EmptyA != "" {
			ga = emptyGeom(c.EmptyA, cx, cy, q)
		} else {
			gb = emptyGeom(c.EmptyB, cx, cy, q)
		}
	}
	defer func() {
		if m := sameA(); m != "" && !v.Bad {
			v = v.Fail("the call changed the geometry it was given (point lists are sub-slices of one array with spare capacity): %s", m)
		}
	}()
	defer func() {
		if m := sameB(); m != "" && !v.Bad {
			v = v.Fail("the call changed the geometry it was given (point lists are sub-slices of one array with spare capacity): %s", m)
		}
	}()

	// judge runs the four operations on (ga, gb) and compares them with the point-set definition for the rings (pa, pb)
	judge := func(pa, pb [][][]vkit.P2, phase string) string {
		ea, eb := vkit.EdgesOf(pa, 0), vkit.EdgesOf(pb, 1)
		var areaA, areaB float64
		vkit.SlabSweep(append(append([]vkit.Edge{}, ea...), eb...), func(mask uint, area, cx, cy float64) {
			if mask&1 != 0 {
				areaA += area
			}
			if mask&2 != 0 {
				areaB += area
			}
		})
		tol := 1e-9 * (areaA + areaB)
		var areaR [4]float64
		for op := 0; op < 4; op++ {
			if onlyIntersection && op != 0 {
				continue
			}
			var res geom.Polygonal
			if p := vkit.Catch(func() { res = apply(op, ga, gb) }); p != "" {
				return fmt.Sprintf(phase+"%s.%s(%s) panicked: %s", ta, opNames[op], tb, p)
			}
			pr, isNil := resultPolys(res, inv)
			if isNil {
				v.Class("nil_result")
			}
			// (4) closed rings from Polygon / MultiPolygon receivers
			if ta != "Bounds" {
				for _, p := range pr {
					for _, r := range p {
						if len(r) > 0 && r[0] != r[len(r)-1] {
							return fmt.Sprintf(phase+"%s.%s(%s): result ring not closed: %v", ta, opNames[op], tb, r)
						}
					}
				}
			}
			er := vkit.EdgesOf(pr, 2)
			all := append(append(append([]vkit.Edge{}, ea...), eb...), er...)
			var bad, expected float64
			var wx, wy, warea float64
			type tp struct {
				x, y float64
				want bool
			}
			var pts []tp
			vkit.SlabSweep(all, func(mask uint, area, cx, cy float64) {
				want := opTruth(op, mask&1 != 0, mask&2 != 0)
				got := mask&4 != 0
				if got {
					areaR[op] += area
				}
				if want {
					expected += area
				}
				if want != got {
					bad += area
					if area > warea {
						wx, wy, warea = cx, cy, area
					}
				}
				if len(pts) < 96 && area > 1e-6*scale*scale {
					pts = append(pts, tp{cx, cy, want})
				}
			})
			if !(bad <= tol) { // NaN-safe
				return fmt.Sprintf(phase+"%s.%s(%s): region where the result disagrees with the point-set definition has area %.6g (expected result area %.6g, result area %.6g, tol %.3g); "+
					"largest piece around (%v, %v); result=%v", ta, opNames[op], tb, bad, expected, areaR[op], tol, wx, wy, pr)
			}
			// (2b) points at each operand's OWN scale (around the middle of its first ring): an operand may be a speck next
			// to the other one, and no cell of the sweep that is large enough to be sampled lies inside it
			for oi, po := range [][][][]vkit.P2{pa, pb} {
				if len(po) == 0 || len(po[0]) == 0 || len(po[0][0]) < 3 {
					continue
				}
				r := po[0][0]
				x0, y0, x1, y1 := bbox(po)
				own := math.Max(x1-x0, y1-y0)
				var mx, my float64
				for _, q := range r {
					mx, my = mx+float64(q[0])/float64(len(r)), my+float64(q[1])/float64(len(r))
				}
				probes := []vkit.P2{vkit.MkP(mx, my)}
				for k := 0; k < len(r) && k < 6; k++ {
					probes = append(probes, vkit.MkP((mx+float64(r[k][0]))/2, (my+float64(r[k][1]))/2))
				}
				for _, p := range probes {
					if vkit.MinDistToEdges(p, ea) <= 1e-3*own || vkit.MinDistToEdges(p, eb) <= 1e-3*own {
						continue
					}
					inA, inB := vkit.PIP(p, pa) == vkit.Inside, vkit.PIP(p, pb) == vkit.Inside
					st := vkit.PIP(p, pr)
					if want := opTruth(op, inA, inB); (st == vkit.Inside) != want {
						return fmt.Sprintf(phase+"%s.%s(%s): point %v (near the middle of operand %d, which is %.3g across) inA=%v inB=%v but in result=%v", ta, opNames[op], tb, p, oi, own, inA, inB, st)
					}
				}
			}
			// (2) the literal statement on test points with a clear margin from every input edge
			for _, q := range pts {
				p := vkit.MkP(q.x, q.y)
				if vkit.MinDistToEdges(p, ea) <= 1e-6*scale || vkit.MinDistToEdges(p, eb) <= 1e-6*scale {
					continue
				}
				inA, inB := vkit.PIP(p, pa) == vkit.Inside, vkit.PIP(p, pb) == vkit.Inside
				st := vkit.PIP(p, pr)
				if want := opTruth(op, inA, inB); (st == vkit.Inside) != want {
					return fmt.Sprintf(phase+"%s.%s(%s): point %v inA=%v inB=%v but in result=%v", ta, opNames[op], tb, p, inA, inB, st)
				}
			}
		}
		if onlyIntersection {
			v.Class("two_boxes_at_an_extreme_scale_intersection_only")
			return ""
		}
		// (3) inclusion-exclusion with true areas
		if d := areaR[0] + areaR[1] - areaA - areaB; vkit.Off(d, 4*tol) {
			return fmt.Sprintf(phase+"area(A∩B)+area(A∪B)-area(A)-area(B) = %g", d)
		}
		if d := areaR[2] - (areaA - areaR[0]); vkit.Off(d, 4*tol) {
			return fmt.Sprintf(phase+"area(A-B)-(area(A)-area(A∩B)) = %g", d)
		}
		if d := areaR[3] - (areaR[1] - areaR[0]); vkit.Off(d, 4*tol) {
			return fmt.Sprintf(phase+"area(A xor B)-(area(A∪B)-area(A∩B)) = %g", d)
		}
		return ""
	}
	if msg := judge(pa, pb, ""); msg != "" {
		return v.Fail("%s", msg)
	}
	if c.Moved != "" && sc == 1 && c.EmptyA == "" && c.EmptyB == "" {
		// a history: the caller rewrites one operand's coordinates in place (the same slices, the same number of points) -
		// far away, then back - and calls again each time: every call has to answer for the coordinates it is handed
		px0, px1 := ax0, ax1
		target, tg, polys := ga, c.A, pa
		if c.Moved == "B" {
			px0, px1, target, tg, polys = bx0, bx1, gb, c.B, pb
		}
		_ = px0
		d := math.Ldexp(1, int(math.Ceil(math.Log2(64*scale+math.Abs(px1)+1))))
		far := make([][][]vkit.P2, len(polys))
		for i, pg := range polys {
			far[i] = make([][]vkit.P2, len(pg))
			for j, r := range pg {
				far[i][j] = make([]vkit.P2, len(r))
				for k, q := range r {
					far[i][j][k] = vkit.MkP(float64(q[0])+d, float64(q[1]))
				}
			}
		}
		write := func(ps [][][]vkit.P2) {
			switch g := target.(type) {
			case *geom.Bounds:
				g.Min, g.Max = ps[0][0][0].Pt(), ps[0][0][2].Pt()
			case geom.Polygon:
				for j := range g {
					for k := range g[j] {
						g[j][k] = ps[0][j][k].Pt()
					}
				}
			case geom.MultiPolygon:
				for i := range g {
					for j := range g[i] {
						for k := range g[i][j] {
							g[i][j][k] = ps[i][j][k].Pt()
						}
					}
				}
			}
		}
		_ = tg
		v.Class("operand_" + c.Moved + "_rewritten_in_place_between_calls")
		write(far)
		var msg string
		if c.Moved == "B" {
			msg = judge(pa, far, "after operand B was rewritten in place (moved away by "+fmt.Sprint(d)+"): ")
		} else {
			msg = judge(far, pb, "after operand A was rewritten in place (moved away by "+fmt.Sprint(d)+"): ")
		}
		write(polys)
		if msg == "" {
			msg = judge(pa, pb, "after operand "+c.Moved+" was moved away and back in place: ")
		}
		if msg != "" {
			return v.Fail("%s", msg)
		}
	}
	return v
}

func TestProp(t *testing.T) {
	_ = fmt.Sprint
	vkit.Main(t, vkit.Spec[Case]{
		ID: "C01",
		Rule: "rapid: operand pairs with kinds drawn from {Polygon, MultiPolygon, *Bounds}^2; in 1 case of 3 both operands are handed to the operations multiplied exactly by 2^k (k in +-40 or +-200; the result is divided by 2^k again, so the oracle works at unit scale); a quarter of the multi-polygon operands is respelled as ONE Polygon value listing all rings (what the operations return for results of several pieces), a quarter of the polygons lists its rings in a drawn order (hole before shell); polygons valid by construction (two families: 2/3 star-shaped shell of 3-12 vertices (a few per cent: 100-400) with " +
			"0-3 star-shaped holes in disjoint sectors of the inscribed disc; 1/3 non-star 'comb/snake' bands of 6-18 vertices between two chains over common knots, rotated or with vertically aligned knots, holes in the cells' inscribed discs; multi-polygons of 1-3 members in disjoint cells, every ring independently reversed/" +
			"rotated/closed-or-unclosed); B placed by a drawn configuration (overlap, nested, in a hole, diagonal, bounding-box disjoint, far, or laid across a long thin hole of A so that its corners are inside A and no vertex of A is inside it); in one case of twelve one operand (either position) is a value without any area - " +
			"geom.NewBounds(), a *Bounds with Max < Min laid over the other operand, Polygon{}, Polygon(nil), Polygon{{}}, MultiPolygon{}, MultiPolygon{{}} - and the expected regions are those of an empty set; continuous " +
			"coordinates and a variant snapped to 2^-10; cases with a vertex of one operand within 1e-7*scale of an edge of the other are skipped (counted). All four " +
			"operations are run per case; oracle = slab (trapezoid) integration of the area where the result's even-odd membership differs from op(inA,inB), " +
			"<= 1e-9*(areaA+areaB), plus up to 96 trapezoid-centroid test points per op with a 1e-6*scale margin, plus area identities, closed rings. " +
			"Every generated pair is counted non-trivial (each measured configuration class exercises the clipper or a shortcut); distinct by case hash; " +
			"the class histogram gives the measured configuration and kind-pair distribution." +
			" Round 9: 'speck' pairs (one operand 1e-7 to 1e-9 of the other's size) with probe points at the small operand's own scale." +
			" Round 11: 'island' configurations (1 in 13): a polygon with a round lake of 10-20 vertices, a second member inside the lake, sometimes a third one far away, members in any order; the other operand small, in the lake, over the island; either one as receiver.",
		Assumptions: []string{"inputs in general position by construction/filter", "the slab integrator (vkit/slab.go) and even-odd PIP (vkit/oracle.go) are the trusted oracle"},
		Gen:         gen,
		Run:         run,
		Known:       map[string]func(Case) bool{"near_vertical_edge": nearVerticalEdge, "absolute_tolerances_at_tiny_scale": tinyAbsoluteScale},
	})
}
