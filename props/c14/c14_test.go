// C14 — Clip returns exactly the parts of a line that lie inside the polygon.
package c14

import (
	"math"
	"os"
	"sort"
	"strconv"
	"testing"

	"github.com/ctessum/geom"
	"pgregory.net/rapid"
	"verif/vkit"
)

type Case struct {
	Lines   [][]vkit.P2 `json:"lines"` // one = LineString (unless AsMulti), several = MultiLineString
	AsMulti bool        `json:"as_multi,omitempty"`
	P       vkit.GJ     `json:"p"` // Polygon | MultiPolygon | Bounds
	Place   string      `json:"place"`
	// ScaleExp k: Clip runs on line and polygon multiplied exactly by 2^k; its result is divided by 2^k again before the
	// oracle (which works on the unscaled case) looks at it
	ScaleExp  int  `json:"scale_exp,omitempty"`
	HoleFirst bool `json:"hole_first,omitempty"` // some polygon lists its rings in an order other than shell first
	// EmptyP: the polygonal argument is a value without any area (P is not used): NewBounds (geom.NewBounds()),
	// InvertedBounds (Max < Min, laid over the line), Polygon{}, Polygon(nil), Polygon{{}}, MultiPolygon{}, MultiPolygon{{}}
	EmptyP string `json:"empty_p,omitempty"`
}

var emptyKinds = []string{"NewBounds", "NewBounds", "InvertedBounds", "InvertedBounds", "Polygon{}", "Polygon(nil)", "Polygon{{}}", "MultiPolygon{}", "MultiPolygon{{}}"}

func emptyGeom(kind string, x0, y0, x1, y1 float64) geom.Polygonal {
	switch kind {
	case "NewBounds":
		return geom.NewBounds()
	case "InvertedBounds":
		return &geom.Bounds{Min: geom.Point{X: x1, Y: y1}, Max: geom.Point{X: x0, Y: y0}}
	case "Polygon{}":
		return geom.Polygon{}
	case "Polygon(nil)":
		return geom.Polygon(nil)
	case "Polygon{{}}":
		return geom.Polygon{{}}
	case "MultiPolygon{}":
		return geom.MultiPolygon{}
	}
	return geom.MultiPolygon{{}}
}

func gen(t *rapid.T) Case {
	var c Case
	kind := rapid.SampledFrom([]string{"Polygon", "MultiPolygon", "Bounds"}).Draw(t, "kindP")
	R := rapid.SampledFrom([]float64{5, 20}).Draw(t, "R")
	A := vkit.GenPolygonal(t, kind, 0, 0, R, false)
	c.P = A.G
	// ring order is free: a quarter of the polygons list their rings in a drawn order (a hole before its shell, as the
	// library's own Difference returns them)
	if c.P.T == "Polygon" && len(c.P.Rings) >= 2 && rapid.IntRange(0, 3).Draw(t, "ringorder") == 2 {
		c.P.Rings = rapid.Permutation(c.P.Rings).Draw(t, "ringperm")
		c.HoleFirst = true
	}
	if c.P.T == "MultiPolygon" {
		for i := range c.P.Polys {
			if len(c.P.Polys[i]) >= 2 && rapid.IntRange(0, 3).Draw(t, "ringorderm") == 2 {
				c.P.Polys[i] = rapid.Permutation(c.P.Polys[i]).Draw(t, "ringpermm")
				c.HoleFirst = true
			}
		}
	}
	c.Place = rapid.SampledFrom([]string{"across", "across", "inside", "throughhole", "outside_near", "outside_far", "xmonotone"}).Draw(t, "place")
	if rapid.IntRange(0, 9).Draw(t, "raster") == 4 {
		// the outline of a set of raster cells (a 'skyline' of 3-7 columns of drawn heights, one vertex at EVERY grid step,
		// so that reflex corners sit between exactly collinear vertices), and lines all of whose vertices are inside it but
		// which pass from one column to another over the top of a lower one
		c.Place = "raster_notch"
		nc := rapid.IntRange(3, 7).Draw(t, "rastercols")
		hts := make([]int, nc)
		for i := range hts {
			hts[i] = rapid.IntRange(1, 5).Draw(t, "rasterh")
		}
		s := rapid.SampledFrom([]float64{1, 0.5, 8}).Draw(t, "rastercell")
		ox, oy := float64(rapid.IntRange(-3, 3).Draw(t, "rasterox")), float64(rapid.IntRange(-3, 3).Draw(t, "rasteroy"))
		var ring []vkit.P2
		add := func(x, y int) { ring = append(ring, vkit.MkP(ox+s*float64(x), oy+s*float64(y))) }
		for x := 0; x <= nc; x++ { // bottom, left to right
			add(x, 0)
		}
		for y := 1; y <= hts[nc-1]; y++ { // up the right side
			add(nc, y)
		}
		for i := nc - 1; i >= 0; i-- { // across the top, right to left
			add(i, hts[i])
			if i > 0 {
				for y := hts[i]; y != hts[i-1]; {
					if hts[i-1] > y {
						y++
					} else {
						y--
					}
					add(i, y)
				}
			}
		}
		for y := hts[0] - 1; y >= 1; y-- { // down the left side
			add(0, y)
		}
		ring = append(ring, ring[0])
		if rapid.Bool().Draw(t, "rasterrev") {
			for i, j := 0, len(ring)-1; i < j; i, j = i+1, j-1 {
				ring[i], ring[j] = ring[j], ring[i]
			}
		}
		c.P = vkit.GJ{T: "Polygon", Rings: [][]vkit.P2{ring}}
		if rapid.Bool().Draw(t, "rasterasmulti") {
			c.P = vkit.GJ{T: "MultiPolygon", Polys: [][][]vkit.P2{{ring}}}
		}
		c.HoleFirst = false
		nlr := rapid.IntRange(1, 2).Draw(t, "rasternl")
		for m := 0; m < nlr; m++ {
			nv := rapid.IntRange(2, 4).Draw(t, "rasternv")
			var l []vkit.P2
			for k := 0; k < nv; k++ {
				col := rapid.IntRange(0, nc-1).Draw(t, "rastercol")
				l = append(l, vkit.MkP(ox+s*(float64(col)+rapid.Float64Range(0.1, 0.9).Draw(t, "rasterfx")), oy+s*(float64(hts[col])*rapid.Float64Range(0.05, 0.95).Draw(t, "rasterfy"))))
			}
			c.Lines = append(c.Lines, l)
		}
		c.AsMulti = nlr > 1 || rapid.Bool().Draw(t, "rasterasml")
		return c
	}
	if rapid.IntRange(0, 24).Draw(t, "blockexit") == 9 {
		// a long x-monotone line that wanders over P for exactly K segments and leaves P's bounding box for good at
		// vertex K, K next to a power of two (the sizes of blocks that code processes lines in)
		c.Place = "exit_at_block"
		m := rapid.SampledFrom([]int{4, 5, 6, 7, 8, 8, 9, 10, 10, 11, 12, 12, 12, 13}).Draw(t, "blockexp")
		K := 1<<uint(m) + rapid.IntRange(-1, 1).Draw(t, "blockoff")
		tail := rapid.IntRange(1, 40).Draw(t, "blocktail")
		if rapid.IntRange(0, 2).Draw(t, "longtail") == 1 {
			// as many vertices outside as over P (or twice as many), so that the exit also sits at a joint of code that cuts
			// the whole line into equal blocks
			tail = K*rapid.IntRange(1, 2).Draw(t, "tailblocks") + rapid.IntRange(-1, 1).Draw(t, "tailoff")
			if tail < 1 {
				tail = 1
			}
		}
		x0, y0, x1, y1 := bb(c.P.Flatten())
		w, h := x1-x0, y1-y0
		var l []vkit.P2
		for k := 0; k <= K; k++ { // vertices 0..K inside the bounding box, x strictly increasing
			x := x0 + w*(0.02+0.96*float64(k)/float64(K))
			l = append(l, vkit.MkP(x, y0+h*rapid.Float64Range(0.05, 0.95).Draw(t, "by")))
		}
		for k := 1; k <= tail; k++ { // beyond the right edge of the box, never to return
			l = append(l, vkit.MkP(x1+w*(0.05+0.3*float64(k)), y0+h*rapid.Float64Range(-0.5, 1.5).Draw(t, "ty")))
		}
		c.Lines = [][]vkit.P2{l}
		c.AsMulti = rapid.Bool().Draw(t, "blockmulti")
		return c
	}
	nl := rapid.SampledFrom([]int{1, 1, 2, 3}).Draw(t, "nl")
	c.AsMulti = nl > 1 || rapid.Bool().Draw(t, "asmulti")
	{
		i := 0
		var l []vkit.P2
		n := rapid.IntRange(2, 12*nl+4).Draw(t, "n")
		if rapid.IntRange(0, 29).Draw(t, "long") == 0 {
			n = rapid.IntRange(260, 700).Draw(t, "nlong") // long lines (block-wise or size-dependent code paths)
		}
		style := rapid.SampledFrom([]string{"walk", "hook", "spiral", "zigzag"}).Draw(t, "style")
		l = vkit.GrowLine(t, n, style)
		// place: scale and translate the grown line
		var sc, tx, ty float64
		x0, y0, x1, y1 := bb(l)
		ext := math.Max(math.Max(x1-x0, y1-y0), 1e-9)
		switch c.Place {
		case "across", "xmonotone":
			sc = R * rapid.Float64Range(1, 4).Draw(t, "sc") / ext
			tx, ty = A.Cx+R*rapid.Float64Range(-1, 1).Draw(t, "tx"), A.Cy+R*rapid.Float64Range(-1, 1).Draw(t, "ty")
		case "inside":
			sc = A.Rin * rapid.Float64Range(0.2, 1.2).Draw(t, "sc") / ext
			tx, ty = A.Cx, A.Cy
		case "throughhole":
			sc = A.Rin * rapid.Float64Range(0.5, 1.6).Draw(t, "sc") / ext
			tx, ty = A.Cx, A.Cy
			if len(A.Holes) > 0 {
				tx, ty = A.Holes[0][0], A.Holes[0][1]
			}
		case "outside_near":
			sc = R * rapid.Float64Range(0.3, 1).Draw(t, "sc") / ext
			tx, ty = A.Cx+1.2*R, A.Cy+1.2*R
		case "outside_far":
			sc = R / ext
			tx, ty = A.Cx+50*R, A.Cy-30*R
		}
		mx, my := (x0+x1)/2, (y0+y1)/2
		if c.Place == "xmonotone" {
			// replace by an x-monotone line
			l = l[:0]
			x := -2 * R
			for k := 0; k < n; k++ {
				x += rapid.Float64Range(0.05, 0.6).Draw(t, "dx") * R
				l = append(l, vkit.MkP(x, rapid.Float64Range(-1.3, 1.3).Draw(t, "y")*R))
			}
			sc, tx, ty, mx, my = 1, A.Cx, A.Cy+float64(i)*1e-3, 0, 0
		}
		for k := range l {
			l[k] = vkit.MkP((float64(l[k][0])-mx)*sc+tx, (float64(l[k][1])-my)*sc+ty)
		}
		// members of a multi-line string: consecutive pieces of one simple line with the connecting segments
		// dropped, hence mutually non-crossing by construction
		chained := nl > 1 && rapid.IntRange(0, 2).Draw(t, "chained") == 1 // members share their end vertices instead of leaving a gap
		first, last := l[0], l[len(l)-1]
		for m := nl; m >= 1; m-- {
			if m == 1 || len(l) < 2*m {
				c.Lines = append(c.Lines, l)
				break
			}
			cut := rapid.IntRange(2, len(l)-2*(m-1)).Draw(t, "cut")
			c.Lines = append(c.Lines, l[:cut])
			if chained {
				l = l[cut-1:]
			} else {
				l = l[cut:]
			}
		}
		if len(c.Lines) == 1 && len(c.Lines[0]) >= 3 && rapid.IntRange(0, 7).Draw(t, "nearlyclosed") == 5 {
			// round 13: the line comes back to where it started, up to rounding: its last vertex is the first one moved by
			// one to three steps to the neighbouring floating-point numbers - an open line all the same
			f := c.Lines[0][0]
			nx, ny := float64(f[0]), float64(f[1])
			for k, n := 0, rapid.IntRange(1, 3).Draw(t, "ncul"); k < n; k++ {
				switch rapid.IntRange(0, 3).Draw(t, "ncax") {
				case 0:
					ny = math.Nextafter(ny, math.Inf(1))
				case 1:
					ny = math.Nextafter(ny, math.Inf(-1))
				case 2:
					nx = math.Nextafter(nx, math.Inf(1))
				default:
					nx = math.Nextafter(nx, math.Inf(-1))
				}
			}
			if nx != float64(f[0]) || ny != float64(f[1]) {
				c.Lines[0] = append(append([]vkit.P2{}, c.Lines[0]...), vkit.MkP(nx, ny))
				c.Place += "_nearly_closed"
			}
		} else if len(c.Lines) == 1 && len(c.Lines[0]) >= 3 && rapid.IntRange(0, 7).Draw(t, "star") == 3 {
			// a junction: the line is cut at an inner vertex J, and one or two short spurs leave J sideways - three or four
			// members that all end in J, listed in any order and direction
			l := c.Lines[0]
			k := rapid.IntRange(1, len(l)-2).Draw(t, "stark")
			J := l[k]
			ax, ay := float64(l[k+1][0])-float64(J[0]), float64(l[k+1][1])-float64(J[1])
			bx, by := float64(l[k-1][0])-float64(J[0]), float64(l[k-1][1])-float64(J[1])
			r := 0.3 * math.Min(math.Hypot(ax, ay), math.Hypot(bx, by))
			members := [][]vkit.P2{append([]vkit.P2{}, l[:k+1]...), append([]vkit.P2{}, l[k:]...)}
			base := math.Atan2(ay, ax)
			for sp, nsp := 0, rapid.IntRange(1, 2).Draw(t, "starspurs"); sp < nsp; sp++ {
				th := base + rapid.Float64Range(0.4, 2.7).Draw(t, "starang")
				if sp == 1 {
					th = base - rapid.Float64Range(0.4, 2.7).Draw(t, "starang2")
				}
				members = append(members, []vkit.P2{J, vkit.MkP(float64(J[0])+r*math.Cos(th), float64(J[1])+r*math.Sin(th))})
			}
			for i := range members {
				if rapid.Bool().Draw(t, "starrev") {
					m := members[i]
					for a, b := 0, len(m)-1; a < b; a, b = a+1, b-1 {
						m[a], m[b] = m[b], m[a]
					}
				}
			}
			c.Lines = rapid.Permutation(members).Draw(t, "starorder")
		}
		if len(c.Lines) == 1 && rapid.IntRange(0, 11).Draw(t, "rectloop") == 4 {
			// a closed loop of straight axis-parallel members: the sides of a rectangle (the long ones sometimes cut in
			// two), in any order and direction, around the middle of P - members whose boxes have no area and only
			// touch each other
			hw, hh := A.Rin*rapid.Float64Range(0.1, 1.4).Draw(t, "rlw"), A.Rin*rapid.Float64Range(0.1, 1.4).Draw(t, "rlh")
			cx, cy := A.Cx+A.Rin*rapid.Float64Range(-0.3, 0.3).Draw(t, "rlx"), A.Cy+A.Rin*rapid.Float64Range(-0.3, 0.3).Draw(t, "rly")
			p := []vkit.P2{vkit.MkP(cx-hw, cy-hh), vkit.MkP(cx+hw, cy-hh), vkit.MkP(cx+hw, cy+hh), vkit.MkP(cx-hw, cy+hh)}
			var members [][]vkit.P2
			for i := 0; i < 4; i++ {
				a, b := p[i], p[(i+1)%4]
				if rapid.IntRange(0, 3).Draw(t, "rlcut") == 0 {
					m := vkit.MkP((float64(a[0])+float64(b[0]))/2, (float64(a[1])+float64(b[1]))/2)
					members = append(members, []vkit.P2{a, m}, []vkit.P2{m, b})
				} else {
					members = append(members, []vkit.P2{a, b})
				}
			}
			for i := range members {
				if rapid.Bool().Draw(t, "rlrev") {
					members[i][0], members[i][len(members[i])-1] = members[i][len(members[i])-1], members[i][0]
				}
			}
			c.Lines = rapid.Permutation(members).Draw(t, "rlorder")
		}
		if chained && len(c.Lines) >= 2 && rapid.Bool().Draw(t, "closeloop") {
			// one more member from the end of the chain back to its start: the members together form a closed loop
			c.Lines = append(c.Lines, []vkit.P2{last, first})
		}
		c.AsMulti = len(c.Lines) > 1 || c.AsMulti
	}
	if rapid.IntRange(0, 19).Draw(t, "emptyp") == 7 {
		// a polygonal argument without any area: nothing of the line is inside it
		c.EmptyP = rapid.SampledFrom(emptyKinds).Draw(t, "emptykind")
		c.P = vkit.GJ{T: "Polygon"}
		c.HoleFirst = false
	}
	if rapid.IntRange(0, 2).Draw(t, "scaled") == 1 {
		c.ScaleExp = rapid.OneOf(rapid.IntRange(-11, 40), rapid.IntRange(-11, 40), rapid.IntRange(-11, 40), rapid.IntRange(-60, -11), rapid.IntRange(-200, 200)).Draw(t, "scale_exp")
	}
	if f := os.Getenv("VERIF_C14_FORCEK"); f != "" { // threshold experiments only (DESIGN.md section 5)
		c.ScaleExp, _ = strconv.Atoi(f)
	}
	return c
}

func bb(l []vkit.P2) (x0, y0, x1, y1 float64) {
	x0, y0, x1, y1 = math.Inf(1), math.Inf(1), math.Inf(-1), math.Inf(-1)
	for _, q := range l {
		x0, y0 = math.Min(x0, float64(q[0])), math.Min(y0, float64(q[1]))
		x1, y1 = math.Max(x1, float64(q[0])), math.Max(y1, float64(q[1]))
	}
	return
}

// lineSimple: the multi-line is simple: no two segments (of the same or different members) come within margin of each
// other except consecutive segments of one member at their shared vertex.
func lineSimple(lines [][]vkit.P2, margin float64) bool {
	// fast path: a single member whose x-coordinates increase by more than the margin at every step is simple
	if len(lines) == 1 && len(lines[0]) >= 2 {
		mono := true
		for i := 0; i+1 < len(lines[0]); i++ {
			if !(float64(lines[0][i+1][0])-float64(lines[0][i][0]) > margin) {
				mono = false
				break
			}
		}
		if mono {
			return true
		}
	}
	type sg struct {
		a, b    vkit.P2
		li, idx int
	}
	var ss []sg
	for li, l := range lines {
		if len(l) < 2 {
			return false
		}
		for i := 0; i+1 < len(l); i++ {
			if vkit.DistPtSeg(l[i], l[i+1], l[i+1]) <= margin {
				return false
			}
			ss = append(ss, sg{l[i], l[i+1], li, i})
		}
	}
	for i := range ss {
		for j := i + 1; j < len(ss); j++ {
			e, f := ss[i], ss[j]
			if l := lines[e.li]; e.li == f.li && e.idx == 0 && f.idx == len(l)-2 && f.idx > 1 && l[0] != l[len(l)-1] &&
				vkit.DistPtSeg(l[0], l[len(l)-1], l[len(l)-1]) <= margin {
				// round 13: an open line that ends within rounding of where it starts (an outline walked once around, its end
				// computed): the first and the last segment are judged like neighbours - they must not run along each other
				if vkit.DistPtSeg(e.b, f.a, f.b) <= margin || vkit.DistPtSeg(f.a, e.a, e.b) <= margin {
					return false
				}
				continue
			}
			if e.li == f.li && f.idx == e.idx+1 {
				if vkit.DistPtSeg(f.b, e.a, e.b) <= margin || vkit.DistPtSeg(e.a, f.a, f.b) <= margin {
					return false
				}
				continue
			}
			if e.li != f.li {
				// members may touch at their END points (a chain of members, or a loop closed by its members): two segments
				// of different members that share an end vertex of both members exactly are judged like neighbours in one line
				endE := func(p vkit.P2) bool { l := lines[e.li]; return p == l[0] || p == l[len(l)-1] }
				endF := func(p vkit.P2) bool { l := lines[f.li]; return p == l[0] || p == l[len(l)-1] }
				var shared *vkit.P2
				for _, p := range []vkit.P2{e.a, e.b} {
					for _, q := range []vkit.P2{f.a, f.b} {
						if p == q && endE(p) && endF(q) {
							pp := p
							shared = &pp
						}
					}
				}
				if shared != nil {
					other := func(a, b vkit.P2) vkit.P2 {
						if a == *shared {
							return b
						}
						return a
					}
					oe, of := other(e.a, e.b), other(f.a, f.b)
					if oe == of || vkit.DistPtSeg(oe, f.a, f.b) <= margin || vkit.DistPtSeg(of, e.a, e.b) <= margin {
						return false
					}
					continue
				}
			}
			if vkit.SegSegDist(e.a, e.b, f.a, f.b) <= margin {
				return false
			}
		}
	}
	return true
}

func run(c Case) (v vkit.Verdict) {
	pp := vkit.PolysOf(c.P)
	ep := vkit.EdgesOf(pp, 0)
	px0, py0, px1, py1 := math.Inf(1), math.Inf(1), math.Inf(-1), math.Inf(-1)
	for _, e := range ep {
		px0, py0 = math.Min(px0, float64(e.A[0])), math.Min(py0, float64(e.A[1]))
		px1, py1 = math.Max(px1, float64(e.A[0])), math.Max(py1, float64(e.A[1]))
	}
	scale := math.Max(px1-px0, py1-py0)
	for _, l := range c.Lines {
		x0, y0, x1, y1 := bb(l)
		scale = math.Max(scale, math.Max(x1-x0, y1-y0))
	}
	margin := 1e-7 * scale
	v.Class("place_" + c.Place)
	v.Class("kind_" + c.P.T)
	if c.HoleFirst {
		v.Class("rings_in_drawn_order")
	}
	for _, l := range c.Lines {
		if len(l) > 256 {
			v.Class("member_longer_than_256")
		}
	}
	if !lineSimple(c.Lines, margin) {
		v.Class("line_not_simple_skipped")
		return v
	}
	// general position: no line vertex near the polygon boundary, no polygon vertex near the line
	for _, l := range c.Lines {
		for i, q := range l {
			if vkit.MinDistToEdges(q, ep) <= margin {
				v.Class("not_general_position_skipped")
				return v
			}
			if i+1 < len(l) {
				for _, e := range ep {
					if vkit.DistPtSeg(e.A, l[i], l[i+1]) <= margin {
						v.Class("not_general_position_skipped")
						return v
					}
				}
			}
		}
	}
	// expected length: cut every segment at its crossings with the polygon boundary, keep pieces whose midpoint is inside
	want := 0.0
	crossings := 0
	type piece struct{ a, b vkit.P2 }
	var keep []piece
	for _, l := range c.Lines {
		for i := 0; i+1 < len(l); i++ {
			a, b := l[i], l[i+1]
			ts := []float64{0, 1}
			dx, dy := float64(b[0])-float64(a[0]), float64(b[1])-float64(a[1])
			for _, e := range ep {
				if x, y, ok := vkit.SegIntersection(a, b, e.A, e.B); ok {
					var tt float64
					if math.Abs(dx) > math.Abs(dy) {
						tt = (x - float64(a[0])) / dx
					} else {
						tt = (y - float64(a[1])) / dy
					}
					ts = append(ts, tt)
					crossings++
				}
			}
			sort.Float64s(ts)
			for k := 0; k+1 < len(ts); k++ {
				t0, t1 := ts[k], ts[k+1]
				if t1 <= t0 {
					continue
				}
				tm := (t0 + t1) / 2
				mid := vkit.MkP(float64(a[0])+tm*dx, float64(a[1])+tm*dy)
				if vkit.PIP(mid, pp) == vkit.Inside {
					want += (t1 - t0) * math.Hypot(dx, dy)
					keep = append(keep, piece{vkit.MkP(float64(a[0])+t0*dx, float64(a[1])+t0*dy), vkit.MkP(float64(a[0])+t1*dx, float64(a[1])+t1*dy)})
				}
			}
		}
	}
	v.NonTrivial = crossings >= 2
	if crossings >= 2 {
		v.Class("crosses_boundary>=2")
	}
	if want == 0 {
		v.Class("expected_empty")
	}
	sc, inv := 1.0, 1.0
	if c.ScaleExp != 0 {
		sc, inv = math.Ldexp(1, c.ScaleExp), math.Ldexp(1, -c.ScaleExp)
		exact := true
		all := append([]vkit.P2{}, c.P.Flatten()...)
		for _, l := range c.Lines {
			all = append(all, l...)
		}
		for _, q := range all {
			for _, f := range q {
				if x := float64(f); (x*sc)*inv != x || (x != 0 && math.Abs(x*sc) < 1e-290) || math.IsInf(x*sc, 0) {
					exact = false
				}
			}
		}
		if exact {
			v.Class("scaled_by_power_of_two")
		} else {
			sc, inv = 1, 1
			v.Class("scaling_not_exact_run_unscaled")
		}
	}
	scalePts := func(r []vkit.P2) []vkit.P2 {
		out := make([]vkit.P2, len(r))
		for i, p := range r {
			out[i] = vkit.MkP(float64(p[0])*sc, float64(p[1])*sc)
		}
		return out
	}
	PS := vkit.GJ{T: c.P.T}
	if c.P.Pts != nil {
		PS.Pts = scalePts(c.P.Pts)
	}
	for _, r := range c.P.Rings {
		PS.Rings = append(PS.Rings, scalePts(r))
	}
	for _, pg := range c.P.Polys {
		var q [][]vkit.P2
		for _, r := range pg {
			q = append(q, scalePts(r))
		}
		PS.Polys = append(PS.Polys, q)
	}
	sgP, sameP := vkit.SharedGeom(PS)
	P := sgP.(geom.Polygonal)
	if c.EmptyP != "" {
		x0, y0, x1, y1 := math.Inf(1), math.Inf(1), math.Inf(-1), math.Inf(-1)
		for _, l := range c.Lines {
			a0, b0, a1, b1 := bb(l)
			x0, y0, x1, y1 = math.Min(x0, a0), math.Min(y0, b0), math.Max(x1, a1), math.Max(y1, b1)
		}
		P = emptyGeom(c.EmptyP, x0*sc, y0*sc, x1*sc, y1*sc)
		v.Class("polygonal_without_area_" + c.EmptyP)
		v.NonTrivial = true
	}
	defer func() {
		if m := sameP(); m != "" && !v.Bad {
			v = v.Fail("the call changed the geometry it was given (point lists are sub-slices of one array with spare capacity): %s", m)
		}
	}()

	var L geom.Linear
	ml := make(geom.MultiLineString, len(c.Lines))
	for i, l := range c.Lines {
		ml[i] = vkit.GJ{T: "LineString", Pts: scalePts(l)}.Geom().(geom.LineString)
	}
	L = ml
	if !c.AsMulti && len(ml) == 1 {
		L = ml[0]
	}
	var res geom.Linear
	if p := vkit.Catch(func() { res = L.Clip(P) }); p != "" {
		return v.Fail("%T.Clip(%s) panicked: %s", L, c.P.T, p)
	}
	rm, ok := res.(geom.MultiLineString)
	if !ok {
		return v.Fail("%T.Clip returned %T, want MultiLineString", L, res)
	}
	for i := range rm {
		u := make(geom.LineString, len(rm[i]))
		for j, q := range rm[i] {
			u[j] = geom.Point{X: q.X * inv, Y: q.Y * inv}
		}
		rm[i] = u
	}
	got := rm.Length()
	if vkit.Off(got-want, 1e-9*(want+scale)) {
		return v.Fail("%T.Clip(%s): clipped length %.12g, length of the intersection of the line with the polygon %.12g (%d boundary crossings)", L, c.P.T, got, want, crossings)
	}
	if (len(rm) == 0) != (want == 0) {
		nz := 0
		for _, m := range rm {
			if len(m) > 0 {
				nz++
			}
		}
		if (nz == 0) != (want == 0) {
			return v.Fail("%T.Clip(%s): %d pieces returned but expected length %g", L, c.P.T, len(rm), want)
		}
	}
	tolv := 1e-9 * scale
	nres := 0
	for _, m := range rm {
		nres += len(m)
	}
	stride := 1 + nres/400 // long results: every stride-th vertex (and always the ends of each piece) is located on the line
	seen := 0
	for _, m := range rm {
		for qi, q := range m {
			seen++
			if stride > 1 && seen%stride != 0 && qi != 0 && qi != len(m)-1 {
				continue
			}
			p := vkit.MkP(q.X, q.Y)
			dl := math.Inf(1)
			for _, l := range c.Lines {
				for i := 0; i+1 < len(l); i++ {
					dl = math.Min(dl, vkit.DistPtSeg(p, l[i], l[i+1]))
				}
			}
			if !(dl <= tolv) { // NaN-safe
				return v.Fail("result vertex %v is %g away from the input line", q, dl)
			}
			if vkit.PIP(p, pp) == vkit.Outside && !(vkit.MinDistToEdges(p, ep) <= tolv) {
				return v.Fail("result vertex %v is outside the polygon (distance %g from its boundary)", q, vkit.MinDistToEdges(p, ep))
			}
		}
	}
	_ = keep
	return v
}

// nearVerticalEdge recognises the inputs of known finding `near_vertical_edge` (the same root cause as in C01): a polygon
// edge or line segment whose end points differ in x by a non-zero amount below 1e-12 of the extent; the sweep-line
// clipper of the polyclip-go dependency mis-orders it.
// tinyAbsoluteScale: known finding `absolute_tolerances_at_tiny_scale` (see props/c01 for the derivation): the clipper
// of the dependency compares against absolute constants that are no longer negligible when the larger of polygon and
// line is smaller than 1e-3 coordinate units as handed to Clip.
func tinyAbsoluteScale(c Case) bool {
	if c.ScaleExp >= 0 {
		return false
	}
	x0, y0, x1, y1 := bb(c.P.Flatten())
	scale := math.Max(x1-x0, y1-y0)
	for _, l := range c.Lines {
		a0, b0, a1, b1 := bb(l)
		scale = math.Max(scale, math.Max(a1-a0, b1-b0))
	}
	return scale*math.Ldexp(1, c.ScaleExp) < 1e-3
}

func nearVerticalEdge(c Case) bool {
	pp := vkit.PolysOf(c.P)
	scale := 0.0
	var segs [][2]vkit.P2
	for _, e := range vkit.EdgesOf(pp, 0) {
		segs = append(segs, [2]vkit.P2{e.A, e.B})
	}
	for _, l := range c.Lines {
		for i := 0; i+1 < len(l); i++ {
			segs = append(segs, [2]vkit.P2{l[i], l[i+1]})
		}
	}
	for _, sg := range segs {
		for _, p := range sg {
			scale = math.Max(scale, math.Max(math.Abs(float64(p[0])), math.Abs(float64(p[1]))))
		}
	}
	for _, sg := range segs {
		if dx := math.Abs(float64(sg[0][0]) - float64(sg[1][0])); dx != 0 && dx < 1e-12*scale {
			return true
		}
	}
	return false
}

func TestProp(t *testing.T) {
	vkit.Main(t, vkit.Spec[Case]{
		ID: "C14",
		Rule: "rapid: in 1 case of 20 the polygonal argument is a value without any area (geom.NewBounds(), a *Bounds with Max < Min laid over the line, Polygon{}, Polygon(nil), Polygon{{}}, MultiPolygon{}, MultiPolygon{{}}; the result has to be empty); in 1 case of 3 line and polygon are handed to Clip multiplied exactly by 2^k (the result is divided by 2^k again; the oracle works at unit scale); simple open line strings (self-avoiding walks, hooks, spirals, zig-zags, x-monotone lines; 2-40 vertices, 1 in 30 with 260-700; 1 case in 40 is an x-monotone line of 2^m+-1 (m=4..13) segments over P that leaves P's bounding box for good at that vertex) and multi-line strings of 1-3 members (pieces of one simple line, with gaps between them or - a third of them - chained at shared end vertices, half of the chains closed into a loop by one more member), " +
			"scaled/placed relative to a valid polygonal P (star polygon or (1 in 3) non-star comb/snake band, 0-3 holes (a quarter with the rings in a drawn order, e.g. a hole first), multi-polygon of 1-3 members, box): across, inside, through a hole, outside near, " +
			"outside far. Cases where the multi-line is not simple (own O(n^2) test, margin 1e-7*scale) or a line vertex / polygon vertex is within that margin of the other " +
			"geometry are skipped and counted. Oracle: every line segment is cut at its intersections with every polygon edge and the pieces whose midpoint is inside P " +
			"(own even-odd test) are summed -> expected length; Clip's total Length must match (1e-9 relative to length+scale), every result vertex must be within 1e-9*scale of " +
			"the input line and inside or on P, and the result is empty exactly when the expected length is 0. Non-trivial = the line crosses the boundary of P at least twice. Distinct by case hash." +
			" Round 9: block-exit lines with long tails (K or 2K more vertices outside after the exit at vertex K)." +
			" Round 10: junctions (1 single-line case in 8: the line cut at an inner vertex plus one or two spurs - three or four members ending in one point, shuffled and reversed)." +
			" Round 12: closed loops of axis-parallel members (1 single-line case in 12: the sides of a rectangle around the middle of P, some cut in two, shuffled and reversed)." +
			" Round 13: one single-line case in eight ends within one to three floating-point steps of where it starts (an open line all the same; its first and last segment are judged like neighbours by the simplicity filter).",
		Assumptions: []string{"general position enforced by filter", "oracle in vkit (SegIntersection, PIP) trusted"},
		Gen:         gen,
		Run:         run,
		Known:       map[string]func(Case) bool{"near_vertical_edge": nearVerticalEdge, "absolute_tolerances_at_tiny_scale": tinyAbsoluteScale},
	})
}
