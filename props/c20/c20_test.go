// C20 — A CRS means the same whether written as PROJ.4, as OGC WKT or by registered name.
package c20

import (
	"fmt"
	"math"
	"os"
	"path/filepath"
	"strings"
	"testing"

	"github.com/ctessum/geom"
	gshp "github.com/ctessum/geom/encoding/shp"
	"github.com/ctessum/geom/proj"
	"pgregory.net/rapid"
	"verif/props/projkit"
	"verif/vkit"
)

type Case struct {
	Kind    string          `json:"kind"` // wkt | name | equal
	D       projkit.Def     `json:"d"`
	WKTOpt  projkit.WKTOpts `json:"wkt_opt"`
	Variant int             `json:"variant"`
	Junk    bool            `json:"junk,omitempty"` // every transformer is asked for impossible positions before the real one
	Lon     float64         `json:"lon"`
	Lat     float64         `json:"lat"`
	Name    string          `json:"name,omitempty"`
	Other   *projkit.Def    `json:"other,omitempty"` // equal: a second definition
	Drop    string          `json:"drop,omitempty"`  // equal: PROJ.4 parameter (e.g. "+x_0") removed from the FIRST definition's text
	ViaShp  bool            `json:"via_shp,omitempty"`
	// proj4js's opinion on the same WKT (third opinion; embedded when node is available)
	HaveJS bool        `json:"have_js,omitempty"`
	JS     *[2]float64 `json:"js,omitempty"`
}

var registered = map[string]string{
	"EPSG:4326":   "+title=WGS 84 (long/lat) +proj=longlat +ellps=WGS84 +datum=WGS84 +units=degrees",
	"WGS84":       "+title=WGS 84 (long/lat) +proj=longlat +ellps=WGS84 +datum=WGS84 +units=degrees",
	"EPSG:4269":   "+title=NAD83 (long/lat) +proj=longlat +a=6378137.0 +b=6356752.31414036 +ellps=GRS80 +datum=NAD83 +units=degrees",
	"EPSG:3857":   "+title=WGS 84 / Pseudo-Mercator +proj=merc +a=6378137 +b=6378137 +lat_ts=0.0 +lon_0=0.0 +x_0=0.0 +y_0=0 +k=1.0 +units=m +nadgrids=@null +no_defs",
	"EPSG:3785":   "+title=WGS 84 / Pseudo-Mercator +proj=merc +a=6378137 +b=6378137 +lat_ts=0.0 +lon_0=0.0 +x_0=0.0 +y_0=0 +k=1.0 +units=m +nadgrids=@null +no_defs",
	"GOOGLE":      "+title=WGS 84 / Pseudo-Mercator +proj=merc +a=6378137 +b=6378137 +lat_ts=0.0 +lon_0=0.0 +x_0=0.0 +y_0=0 +k=1.0 +units=m +nadgrids=@null +no_defs",
	"EPSG:900913": "+title=WGS 84 / Pseudo-Mercator +proj=merc +a=6378137 +b=6378137 +lat_ts=0.0 +lon_0=0.0 +x_0=0.0 +y_0=0 +k=1.0 +units=m +nadgrids=@null +no_defs",
	"EPSG:102113": "+title=WGS 84 / Pseudo-Mercator +proj=merc +a=6378137 +b=6378137 +lat_ts=0.0 +lon_0=0.0 +x_0=0.0 +y_0=0 +k=1.0 +units=m +nadgrids=@null +no_defs",
}
var regNames = []string{"EPSG:4326", "WGS84", "EPSG:4269", "EPSG:3857", "EPSG:3785", "GOOGLE", "EPSG:900913", "EPSG:102113"}

// genWKTDef draws a definition that both notations can express: Greenwich prime meridian, enu axes, merc with k_0, lcc 2SP
// without k_0, and a datum given by TOWGS84 terms (3 or 7, possibly all zero) or by a name both notations know.
func genWKTDef(t *rapid.T) projkit.Def {
	d := projkit.GenDef(t, projkit.Opts{Projs: []string{"merc", "lcc", "aea", "eqdc", "tmerc", "longlat"}, NoPM: true, OnlyDatum: true})
	if d.Proj == "merc" && d.LatTS != nil {
		d.LatTS = nil
		d.K0 = 1
	}
	if d.Proj == "lcc" {
		d.K0 = 0
		if d.OneSP {
			d.OneSP = false
		}
	}
	if (d.Proj == "aea" || d.Proj == "eqdc") && d.OneSP {
		d.OneSP = false // WKT always writes both parallels (they may be equal)
	}
	if d.ToMeter != 0 && d.ToMeter != 0.3048 {
		// keep to the units the property names (metre, foot, US survey foot) plus one custom factor
		d.ToMeter = 0.3048
	}
	if d.DatumKind == "towgs" && rapid.IntRange(0, 5).Draw(t, "zeroshift") == 0 {
		for i := range d.Towgs {
			d.Towgs[i] = 0
		}
	}
	return d
}

func gen(t *rapid.T) Case {
	var c Case
	c.Kind = rapid.SampledFrom([]string{"wkt", "wkt", "wkt", "name", "equal", "equal", "equalwkt"}).Draw(t, "kind")
	switch c.Kind {
	case "wkt":
		c.D = genWKTDef(t)
		c.WKTOpt = projkit.WKTOpts{ESRI: rapid.Bool().Draw(t, "esri"), Authority: rapid.Bool().Draw(t, "auth"), UnitFirst: rapid.Bool().Draw(t, "unitfirst"), Degree: rapid.SampledFrom(projkit.DegreeSpellings).Draw(t, "degree"),
			Reverse: rapid.Bool().Draw(t, "reverse"), Axis: rapid.Bool().Draw(t, "axis"),
			Sep: rapid.SampledFrom([]string{"", "", " ", "\n    "}).Draw(t, "sep"),
			// free-text names as files have them: commas inside the quotes, or a single character
			Names: rapid.SampledFrom([]int{0, 0, 0, 1, 1, 2, 3, 3}).Draw(t, "names")}
		c.Variant = rapid.IntRange(0, 41).Draw(t, "variant")
		c.Junk = rapid.IntRange(0, 2).Draw(t, "junk") == 1
		c.Lon, c.Lat = projkit.GenPosition(t, c.D)
		c.ViaShp = rapid.IntRange(0, 9).Draw(t, "viashp") == 0
		// proj4js 2.3.12 does not read TOWGS84 clauses from WKT at all, so it is a third opinion for named datums only
		if orc, _ := projkit.GetOracle(); orc != nil && c.D.Proj != "longlat" && c.D.DatumKind == "name" && c.WKTOpt.Names == 0 {
			res, _, err := orc.Transform("+proj=longlat +datum=WGS84 +no_defs", c.D.WKT(c.WKTOpt, c.Variant), [][2]float64{{c.Lon, c.Lat}})
			if err == nil {
				c.HaveJS, c.JS = true, res[0]
			}
		}
	case "name":
		c.Name = rapid.SampledFrom(regNames).Draw(t, "name")
		c.Lon, c.Lat = rapid.Float64Range(-179, 179).Draw(t, "lon"), rapid.Float64Range(-84, 84).Draw(t, "lat")
	case "equalwkt":
		// two references both parsed from WKT (same PROJCS name, as files written by one tool have): identical, one
		// parameter / the unit / the datum changed, or unrelated
		c.D = genWKTDef(t)
		o := c.D
		switch rapid.IntRange(0, 5).Draw(t, "wrelation") {
		case 0:
		case 1:
			o.Lon0 += 6
		case 2:
			o.X0 += 1000
		case 3:
			if o.ToMeter == 0 {
				o.ToMeter = 0.3048
			} else {
				o.ToMeter = 0
			}
			if o.Proj == "longlat" {
				o.Lon0 += 0 // no linear unit: stays identical
			}
		case 4:
			o.DatumKind, o.Datum, o.Towgs = "towgs", "", []float64{5, 0, -3}
		default:
			o = genWKTDef(t)
		}
		c.Other = &o
		c.WKTOpt = projkit.WKTOpts{ESRI: rapid.Bool().Draw(t, "esri"), Authority: rapid.Bool().Draw(t, "auth"), UnitFirst: rapid.Bool().Draw(t, "unitfirst"), Degree: rapid.SampledFrom(projkit.DegreeSpellings).Draw(t, "degree")}
		c.Variant = rapid.IntRange(0, 41).Draw(t, "variant")
		c.Lon, c.Lat = projkit.GenPosition(t, c.D)
	case "equal":
		c.D = projkit.GenDef(t, projkit.Opts{})
		o := c.D
		switch rapid.IntRange(0, 5).Draw(t, "relation") {
		case 5: // the same text with one parameter left out on one side only (unset vs set)
			c.Drop = rapid.SampledFrom([]string{"+x_0", "+y_0", "+lon_0", "+lat_0", "+lat_2", "+lat_ts", "+k_0", "+k", "+towgs84", "+units", "+pm", "+zone"}).Draw(t, "drop")
			if o.X0 == 0 {
				o.X0 = 1000
				c.D.X0 = 1000
			}
		case 0: // identical
		case 1: // towgs84 list of another length with the same leading terms
			if o.DatumKind == "towgs" && len(o.Towgs) == 3 {
				o.Towgs = append(append([]float64{}, o.Towgs...), 0, 0, 0, 0)
				if rapid.Bool().Draw(t, "nonzerotail") {
					o.Towgs[5] = 1.5
				}
			} else if o.DatumKind == "towgs" {
				o.Towgs = append([]float64{}, o.Towgs[:3]...)
			} else {
				o.DatumKind, o.Datum, o.Towgs = "towgs", "", []float64{1, 2, 3, 0.5, 0, 0, 1}
			}
		case 2: // one parameter changed slightly
			o.X0 += 0.5
			if o.Proj == "longlat" || o.Proj == "utm" {
				o.DatumKind, o.Datum, o.Towgs = "towgs", "", []float64{5, 0, 0}
			}
		default: // unrelated second definition
			o = projkit.GenDef(t, projkit.Opts{})
		}
		c.Other = &o
		c.Lon, c.Lat = projkit.GenPosition(t, c.D)
	}
	return c
}

var wgsGeo = "+proj=longlat +datum=WGS84 +no_defs"

func tr(src, dst *proj.SR, x, y float64) (float64, float64, error) {
	t, err := src.NewTransform(dst)
	if err != nil {
		return 0, 0, err
	}
	if t == nil {
		return x, y, nil
	}
	if junkFirst {
		// positions the transformer has to refuse (or answer with NaN) come first; what it says to them is its business,
		// but the position that follows is transformed as if they had never been asked
		for _, j := range [][2]float64{{math.NaN(), math.NaN()}, {math.Inf(1), 0}, {0, 95}, {7, -95}, {1e30, 1e30}} {
			t(j[0], j[1])
		}
	}
	ox, oy, err := t(x, y)
	if err == nil && (math.IsNaN(ox) || math.IsNaN(oy)) {
		err = fmt.Errorf("NaN result")
	}
	return ox, oy, err
}

// junkFirst: every transformer of the current case is asked for five impossible positions before the real one
var junkFirst bool

func mustParse(s string) (*proj.SR, error) {
	sr, err := proj.Parse(s)
	if err != nil {
		return nil, fmt.Errorf("Parse(%q): %v", s, err)
	}
	return sr, nil
}

var decoys = []string{
	`GEOGCS["Decoy_A",DATUM["Decoy_Datum_A",SPHEROID["Bessel_1841",6377397.155,299.1528128],TOWGS84[7.5,-3,11]],PRIMEM["Greenwich",0],UNIT["Degree",0.017453292519943295]]`,
	`PROJCS["Decoy_B",GEOGCS["GCS_B",DATUM["Decoy_Datum_B",SPHEROID["GRS_1980",6378137,298.257222101],TOWGS84[-120,44,9]],PRIMEM["Greenwich",0],UNIT["Degree",0.017453292519943295]],PROJECTION["Transverse_Mercator"],PARAMETER["latitude_of_origin",0],PARAMETER["central_meridian",9],PARAMETER["scale_factor",0.9996],PARAMETER["false_easting",500000],PARAMETER["false_northing",0],UNIT["Meter",1]]`,
	`GEOGCS["Decoy_C",DATUM["Decoy_Datum_C",SPHEROID["International_1924",6378388,297],TOWGS84[1,2,3,0.4,0.5,0.6,7]],PRIMEM["Greenwich",0],UNIT["Degree",0.017453292519943295]]`,
	"+proj=longlat +ellps=intl +towgs84=-87,-98,-121 +no_defs",
	"+proj=utm +zone=31 +ellps=bessel +towgs84=5,6,7,0.1,0.2,0.3,1 +no_defs",
	"EPSG:3857",
}

func runWKT(c Case) (v vkit.Verdict) {
	p4 := c.D.String()
	w := c.D.WKT(c.WKTOpt, c.Variant)
	v.Class("wkt_" + c.D.Proj)
	dialect := "ogc"
	if c.WKTOpt.ESRI {
		dialect = "esri"
	}
	v.Class("dialect_" + dialect)
	u := c.D.UnitToMeter()
	v.NonTrivial = (c.D.Proj != "longlat" && u != 1) || c.D.DatumKind == "towgs" || (c.D.Proj == "aea" && !c.WKTOpt.ESRI)
	fail := func(format string, a ...interface{}) vkit.Verdict {
		return v.Fail("%s\n  PROJ.4: %s\n  WKT:    %s", fmt.Sprintf(format, a...), p4, w)
	}
	var srW *proj.SR
	var err error
	if c.ViaShp {
		// read the WKT through (*shp.Decoder).SR from a .prj beside a shapefile
		dir, e := os.MkdirTemp("/dev/shm", "verif-c20-")
		if e != nil {
			dir, _ = os.MkdirTemp("", "verif-c20-")
		}
		defer os.RemoveAll(dir)
		type rec struct {
			geom.Point
			ID int
		}
		file := filepath.Join(dir, "p")
		enc, e := gshp.NewEncoder(file, rec{})
		if e != nil {
			panic(e)
		}
		enc.Encode(rec{Point: geom.Point{X: 1, Y: 2}, ID: 1})
		enc.Close()
		os.WriteFile(file+".prj", []byte(w), 0o644)
		dec, e := gshp.NewDecoder(file + ".shp")
		if e != nil {
			return fail("NewDecoder: %v", e)
		}
		srW, err = dec.SR()
		dec.Close()
		v.Class("via_shp_prj")
	} else {
		srW, err = proj.Parse(w)
	}
	if err != nil {
		return fail("parsing the WKT: %v", err)
	}
	// other texts parsed afterwards (with datum clauses of every length) leave the reference obtained above alone
	for _, decoy := range decoys {
		proj.Parse(decoy)
	}
	srP, err := mustParse(p4)
	if err != nil {
		return fail("%v", err)
	}
	g, _ := mustParse(wgsGeo)
	// to the CRS from WGS84
	px, py, e1 := tr(g, srP, c.Lon, c.Lat)
	wx, wy, e2 := tr(g, srW, c.Lon, c.Lat)
	if e1 != nil || e2 != nil {
		return fail("WGS84 (%v, %v) -> CRS: PROJ.4 parse gives (%v, %v, %v), WKT parse gives (%v, %v, %v)", c.Lon, c.Lat, px, py, e1, wx, wy, e2)
	}
	tol := 1e-6 / u
	if c.D.Proj == "longlat" {
		tol = 1e-11
	}
	if vkit.Off(px-wx, tol) || vkit.Off(py-wy, tol) {
		return fail("WGS84 (%v, %v) -> CRS: PROJ.4 parse gives (%.9f, %.9f) but WKT parse gives (%.9f, %.9f): differ by (%.3g, %.3g) > %.3g units", c.Lon, c.Lat, px, py, wx, wy, math.Abs(px-wx), math.Abs(py-wy), tol)
	}
	// and back (fresh parses: the constructors fill defaults into the SR)
	srP2, _ := mustParse(p4)
	srW2, _ := proj.Parse(w)
	g2, _ := mustParse(wgsGeo)
	bx, by, e1 := tr(srP2, g2, px, py)
	cx, cy, e2 := tr(srW2, g2, px, py)
	if e1 != nil || e2 != nil {
		return fail("CRS (%v, %v) -> WGS84: PROJ.4 parse (%v, %v, %v), WKT parse (%v, %v, %v)", px, py, bx, by, e1, cx, cy, e2)
	}
	if vkit.Off(bx-cx, 1e-11) || vkit.Off(by-cy, 1e-11) {
		return fail("CRS (%v, %v) -> WGS84: PROJ.4 parse gives (%.12f, %.12f), WKT parse (%.12f, %.12f)", px, py, bx, by, cx, cy)
	}
	// to each other
	srP3, _ := mustParse(p4)
	srW3, _ := proj.Parse(w)
	ex, ey, e3 := tr(srP3, srW3, px, py)
	// (an inverse followed by a forward projection: limited by the 1e-10 rad stopping rule of the iterative inverses and, for 7-parameter datums, by the small-angle inverse Helmert of the WGS84 step: up to a few mm)
	rot := false
	if p7, ok := c.D.ToWGS84(); ok && (p7[3] != 0 || p7[4] != 0 || p7[5] != 0) {
		rot = true // the WGS84 step there and back uses PROJ.4's small-angle inverse Helmert: millimetres, magnified by the map scale
	}
	if e3 != nil || (!rot && (vkit.Off(ex-px, 5e4*tol) || vkit.Off(ey-py, 5e4*tol))) {
		return fail("PROJ.4 parse -> WKT parse maps (%v, %v) to (%v, %v, %v)", px, py, ex, ey, e3)
	}
	// parsing the same text twice gives Equal references
	a1, _ := proj.Parse(w)
	a2, _ := proj.Parse(w)
	if !a1.Equal(a2, 0) {
		return fail("parsing the same WKT twice gives references that are not Equal")
	}
	b1, _ := mustParse(p4)
	b2, _ := mustParse(p4)
	if !b1.Equal(b2, 0) {
		return fail("parsing the same PROJ.4 text twice gives references that are not Equal")
	}
	if t, err := a1.NewTransform(a2); err != nil || t != nil {
		return fail("NewTransform between two parses of the same WKT is not the nil (identity) transformer (err %v)", err)
	}
	// proj4js on the same WKT (third opinion)
	if c.HaveJS && c.JS != nil {
		v.Class("proj4js_third_opinion")
		if vkit.Off(wx-c.JS[0], 1e-4/u) || vkit.Off(wy-c.JS[1], 1e-4/u) {
			return fail("WGS84 (%v, %v) -> WKT CRS: Go gives (%.6f, %.6f), proj4js gives (%.6f, %.6f)", c.Lon, c.Lat, wx, wy, c.JS[0], c.JS[1])
		}
	}
	return v
}

func runName(c Case) (v vkit.Verdict) {
	v.Class("name_" + c.Name)
	v.NonTrivial = true
	n1, err := proj.Parse(c.Name)
	if err != nil {
		return v.Fail("Parse(%q): %v", c.Name, err)
	}
	d1, err := proj.Parse(registered[c.Name])
	if err != nil {
		return v.Fail("Parse of the definition of %s: %v", c.Name, err)
	}
	if !n1.Equal(d1, 3) || !d1.Equal(n1, 3) {
		return v.Fail("Parse(%q) is not Equal to its definition %q", c.Name, registered[c.Name])
	}
	if t, err := n1.NewTransform(d1); err != nil || t != nil {
		return v.Fail("NewTransform(%s, its definition) is not the identity (err %v)", c.Name, err)
	}
	n2, _ := proj.Parse(c.Name)
	if !n1.Equal(n2, 0) {
		return v.Fail("Parse(%q) twice: not Equal", c.Name)
	}
	// same transformer output from WGS84 geographic
	g, _ := mustParse(wgsGeo)
	lat := c.Lat
	ax, ay, e1 := tr(g, n1, c.Lon, lat)
	dd, _ := proj.Parse(registered[c.Name])
	bx, by, e2 := tr(g, dd, c.Lon, lat)
	if (e1 != nil) != (e2 != nil) || (e1 == nil && (vkit.Off(ax-bx, 1e-6) || vkit.Off(ay-by, 1e-6))) {
		return v.Fail("WGS84 (%v, %v) -> %s gives (%v, %v, %v) but -> its definition gives (%v, %v, %v)", c.Lon, lat, c.Name, ax, ay, e1, bx, by, e2)
	}
	// the web-mercator names also have a definition in the other notation: the .prj text ESRI software writes for them
	// (PROJECTION "Mercator_Auxiliary_Sphere", which the package registers as a name of its Mercator)
	switch c.Name {
	case "EPSG:3857", "EPSG:3785", "GOOGLE", "EPSG:900913", "EPSG:102113":
		v.Class("web_mercator_esri_prj")
		ew, err := proj.Parse(esriWebMercator)
		if err != nil {
			return v.Fail("Parse of ESRI's .prj text for web mercator: %v", err)
		}
		cx, cy, e3 := tr(g, ew, c.Lon, lat)
		if e1 == nil && (e3 != nil || vkit.Off(ax-cx, 1e-6) || vkit.Off(ay-cy, 1e-6)) {
			return v.Fail("WGS84 (%v, %v) -> %s gives (%v, %v) but -> ESRI's .prj text for the same system gives (%v, %v, %v)", c.Lon, lat, c.Name, ax, ay, cx, cy, e3)
		}
	}
	return v
}

const esriWebMercator = `PROJCS["WGS_1984_Web_Mercator_Auxiliary_Sphere",GEOGCS["GCS_WGS_1984",DATUM["D_WGS_1984",SPHEROID["WGS_1984",6378137.0,298.257223563]],PRIMEM["Greenwich",0.0],UNIT["Degree",0.0174532925199433]],PROJECTION["Mercator_Auxiliary_Sphere"],PARAMETER["False_Easting",0.0],PARAMETER["False_Northing",0.0],PARAMETER["Central_Meridian",0.0],PARAMETER["Standard_Parallel_1",0.0],PARAMETER["Auxiliary_Sphere_Type",0.0],UNIT["Meter",1.0]]`

func runEqual(c Case) (v vkit.Verdict) {
	v.Class("equal")
	s1, s2 := c.D.String(), c.Other.String()
	if c.Kind == "equalwkt" {
		v.Class("equal_both_from_wkt")
		s1, s2 = c.D.WKT(c.WKTOpt, c.Variant), c.Other.WKT(c.WKTOpt, c.Variant)
	}
	if c.Drop != "" {
		var kept []string
		for _, w := range strings.Fields(s1) {
			if !strings.HasPrefix(w, c.Drop+"=") && w != c.Drop {
				kept = append(kept, w)
			}
		}
		s1 = strings.Join(kept, " ")
		v.Class("parameter_dropped_on_one_side")
	}
	a, err := mustParse(s1)
	if err != nil {
		return v.Fail("%v", err)
	}
	b, err := mustParse(s2)
	if err != nil {
		return v.Fail("%v", err)
	}
	var eqAB, eqBA bool
	if p := vkit.Catch(func() { eqAB = a.Equal(b, 3); eqBA = b.Equal(a, 3) }); p != "" {
		return v.Fail("Equal panicked for %q vs %q: %s", s1, s2, p)
	}
	if eqAB != eqBA {
		return v.Fail("Equal is not symmetric for %q vs %q: %v / %v", s1, s2, eqAB, eqBA)
	}
	if s1 == s2 && !eqAB {
		return v.Fail("two parses of %q are not Equal", s1)
	}
	var t proj.Transformer
	if p := vkit.Catch(func() { t, err = a.NewTransform(b) }); p != "" {
		return v.Fail("NewTransform panicked for %q -> %q: %s", s1, s2, p)
	}
	if err != nil {
		return v.Fail("NewTransform(%q, %q): %v", s1, s2, err)
	}
	if (t == nil) != eqAB {
		return v.Fail("NewTransform(%q, %q) nil=%v but Equal=%v", s1, s2, t == nil, eqAB)
	}
	lenDiffer := c.D.DatumKind == "towgs" && c.Other.DatumKind == "towgs" && len(c.D.Towgs) != len(c.Other.Towgs)
	v.NonTrivial = lenDiffer || eqAB
	if lenDiffer {
		v.Class("towgs84_lengths_differ")
	}
	if eqAB {
		v.Class("equal_true")
		// the identity is only right if both references mean the same: compare what WGS84 positions map to
		g, _ := mustParse(wgsGeo)
		a2, _ := mustParse(s1)
		b2, _ := mustParse(s2)
		ax, ay, e1 := tr(g, a2, c.Lon, c.Lat)
		g3, _ := mustParse(wgsGeo)
		bx, by, e2 := tr(g3, b2, c.Lon, c.Lat)
		if (e1 != nil) != (e2 != nil) || (e1 == nil && (vkit.Off(ax-bx, 1e-6) || vkit.Off(ay-by, 1e-6))) {
			return v.Fail("%q and %q are Equal (NewTransform gives the identity) but WGS84 (%v, %v) maps to (%v, %v, %v) in one and (%v, %v, %v) in the other", s1, s2, c.Lon, c.Lat, ax, ay, e1, bx, by, e2)
		}
	}
	return v
}

func run(c Case) vkit.Verdict {
	junkFirst = c.Junk
	defer func() { junkFirst = false }()
	switch c.Kind {
	case "wkt":
		return runWKT(c)
	case "name":
		return runName(c)
	}
	return runEqual(c)
}

func TestProp(t *testing.T) {
	vkit.Main(t, vkit.Spec[Case]{
		ID: "C20",
		Rule: "rapid: one parameter record (merc with k_0, lcc 2SP, aea, eqdc, tmerc or geographic; spheroid by name or (a, 1/f); datum by TOWGS84 with 3 or 7 terms incl. all-zero, or by a name " +
			"both notations know in several spellings; metre / foot / US survey foot; false origin, central meridian, parallels, scale) rendered as PROJ.4 text and as OGC WKT in drawn dialects " +
			"(OGC/GDAL names such as latitude_of_center / longitude_of_center vs ESRI names, AUTHORITY clauses, UNIT first or last, parameter order, AXIS clauses); linear WKT parameters are written " +
			"in the declared unit. Oracle: transformers WGS84->CRS from both parses agree within 1 micrometre, CRS->WGS84 within 1e-11 deg, PROJ.4 parse -> WKT parse is the identity within 5 cm and without error (an inverse followed by a forward projection, limited by the 1e-10 rad stopping rule of the iterative inverses times the map scale; value not compared for datums with rotations, where the WGS84 step uses the small-angle inverse Helmert), " +
			"no error/NaN; same text parsed twice is Equal(.,0) and NewTransform between them is nil; proj4js on the same WKT agrees within 0.1 mm (named datums only - proj4js 2.3.12 ignores TOWGS84 clauses in WKT - and when node is available); every tenth case reads the WKT through " +
			"(*shp.Decoder).SR from a .prj file. Registered names vs their definitions: Equal both ways, nil transformer, same outputs. Equal/NewTransform on generated pairs (identical, towgs84 lists of " +
			"different length, one parameter changed, one parameter present on one side only, unrelated; and pairs both rendered as WKT with the same PROJCS name - identical, central meridian / false easting / unit / datum changed, unrelated): no panic, symmetric, NewTransform nil iff Equal, and Equal references map WGS84 positions identically. Non-trivial = non-metre unit, " +
			"TOWGS84 clause, OGC-dialect Albers; name cases; equal cases with different towgs84 lengths or Equal true. Distinct by case hash." +
			" Round 9: decoy parses between parsing a reference and using it; free-text WKT names with commas or of one character." +
			" Round 10: in a third of the WKT cases every transformer is asked for five impossible positions before the real one; the web-mercator names are also compared with ESRI's .prj text for them." +
			" Round 13: a quarter of the WKT texts name a datum given by TOWGS84 as real files do (World_Geodetic_System_1972, North_American_Datum_1927, OSGB_1970_SN, CH1903+ ...: names that begin like or contain a registered one without being one).",
		Assumptions: []string{"WKT without blanks after commas (as GDAL and ESRI write .prj files)", "definitions that give no datum information are not compared across notations (PROJ.4 text: unknown datum; WKT: always names a datum)"},
		Gen:         gen,
		Run:         run,
	})
}
