package c07

import (
	"encoding/hex"
	"strconv"
	"testing"

	"github.com/ctessum/geom/encoding/geojson"
	"pgregory.net/rapid"
	"verif/vkit"
)

func unquoteGo(s string) (string, error) { return strconv.Unquote(s) }

// seeds: valid encodings and hostile constants (seeding changes what coverage-guided fuzzing finds by orders of magnitude).
func wkbSeeds() [][]byte {
	var out [][]byte
	gs := []vkit.GJ{
		{T: "Point", Pts: []vkit.P2{vkit.MkP(1, 2)}},
		{T: "LineString", Pts: []vkit.P2{vkit.MkP(1, 2), vkit.MkP(3, 4)}},
		{T: "Polygon", Rings: [][]vkit.P2{{vkit.MkP(0, 0), vkit.MkP(1, 0), vkit.MkP(0, 1), vkit.MkP(0, 0)}}},
		{T: "MultiPoint", Pts: []vkit.P2{vkit.MkP(1, 2), vkit.MkP(3, 4)}},
		{T: "MultiLineString", Rings: [][]vkit.P2{{vkit.MkP(1, 2), vkit.MkP(3, 4)}, {}}},
		{T: "MultiPolygon", Polys: [][][]vkit.P2{{{vkit.MkP(0, 0), vkit.MkP(1, 0), vkit.MkP(0, 1)}}}},
		{T: "GeometryCollection", Geoms: []vkit.GJ{{T: "Point", Pts: []vkit.P2{vkit.MkP(1, 2)}}, {T: "GeometryCollection"}}},
	}
	for _, g := range gs {
		out = append(out, vkit.RefWKB(g, []bool{false}), vkit.RefWKB(g, []bool{true, false}))
	}
	out = append(out,
		[]byte{1, 2, 0, 0, 0, 0, 0, 0, 0x10}, // line string with 2^28 points
		[]byte{0, 0, 0, 0, 2, 0x10, 0, 0, 0},
		[]byte{1, 3, 0, 0, 0, 0xff, 0xff, 0xff, 0xff},
		[]byte{1, 7, 0, 0, 0, 0, 0, 1, 0},
		[]byte{1, 4, 0, 0, 0, 0, 0, 0, 0x01, 1, 1, 0, 0, 0},
		[]byte{2, 1, 0, 0, 0},
		[]byte{1, 17, 0, 0, 0},
	)
	return out
}

func FuzzWKB(f *testing.F) {
	for _, s := range wkbSeeds() {
		f.Add(s)
	}
	f.Fuzz(func(t *testing.T, data []byte) {
		if len(data) > 64<<10 {
			return
		}
		if _, msg := checkOne("wkb", data, 0); msg != "" {
			t.Fatalf("C07 wkb: %s", msg)
		}
	})
}

func FuzzHex(f *testing.F) {
	for _, s := range wkbSeeds() {
		f.Add(hex.EncodeToString(s))
	}
	f.Add("0102000000")
	f.Add("zz")
	f.Fuzz(func(t *testing.T, s string) {
		if len(s) > 64<<10 {
			return
		}
		if _, msg := checkOne("hex", []byte(s), 0); msg != "" {
			t.Fatalf("C07 hex: %s", msg)
		}
	})
}

func FuzzGeoJSON(f *testing.F) {
	for _, g := range []vkit.GJ{
		{T: "Point", Pts: []vkit.P2{vkit.MkP(1, 2)}},
		{T: "LineString", Pts: []vkit.P2{vkit.MkP(1, 2), vkit.MkP(3, 4)}},
		{T: "Polygon", Rings: [][]vkit.P2{{vkit.MkP(0, 0), vkit.MkP(1, 0), vkit.MkP(0, 1), vkit.MkP(0, 0)}, {}}},
		{T: "MultiPolygon", Polys: [][][]vkit.P2{{{vkit.MkP(0, 0), vkit.MkP(1, 0), vkit.MkP(0, 1)}}}},
	} {
		b, _ := geojson.Encode(g.Geom())
		f.Add(b)
	}
	f.Add([]byte(`{"type":"Point","coordinates":[1]}`))
	f.Add([]byte(`{"type":"MultiPoint","coordinates":[[1,2],[3]]}`))
	f.Add([]byte(`{"type":"Polygon","coordinates":[[[1,2]],3]}`))
	f.Add([]byte(`{"type":"GeometryCollection","geometries":[]}`))
	f.Add([]byte(`{"type":"LineString","coordinates":[[1e999,2]]}`))
	f.Fuzz(func(t *testing.T, data []byte) {
		if len(data) > 64<<10 {
			return
		}
		if _, msg := checkOne("geojson", data, 0); msg != "" {
			t.Fatalf("C07 geojson: %s", msg)
		}
	})
}

var _ = rapid.Check
