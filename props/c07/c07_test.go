// C07 — Decoders are total on untrusted input: a geometry or an error, never a crash.
package c07

import (
	"bytes"
	"encoding/binary"
	"encoding/hex"
	"encoding/json"
	"fmt"
	"math"
	"os"
	"path/filepath"
	"runtime"
	"strings"
	"testing"

	"github.com/ctessum/geom"
	"github.com/ctessum/geom/encoding/geojson"
	ghex "github.com/ctessum/geom/encoding/hex"
	"github.com/ctessum/geom/encoding/wkb"
	"pgregory.net/rapid"
	"verif/vkit"
)

type Case struct {
	Decoder     string `json:"decoder"` // wkb | hex | geojson | geojsonvalue
	Data        []byte `json:"data"`    // bytes for wkb, text for hex/geojson, JSON description of the value for geojsonvalue
	Source      string `json:"source"`  // how the input was produced
	Typed       int    `json:"typed,omitempty"`
	AllPrefixes bool   `json:"all_prefixes,omitempty"` // additionally decode every proper prefix of Data (Data is a valid encoding)
}

var hostileCounts = []uint32{0, 1, 2, 1 << 16, 1<<16 + 1, 1 << 20, 1 << 24, 1 << 28, 1 << 31, 1<<32 - 1, 0x01000000, 0x00010000}

func genValid(t *rapid.T) (vkit.GJ, []bool) {
	o := vkit.GeomOpts{MaxDepth: rapid.IntRange(0, 3).Draw(t, "depth"), MinMembers: 0,
		MaxMembers: rapid.SampledFrom([]int{1, 2, 4}).Draw(t, "maxmem"), MaxPts: rapid.SampledFrom([]int{1, 2, 5}).Draw(t, "maxpts"),
		Coord: vkit.CoordAnyBits()}
	return vkit.GenGJ(t, o), rapid.SliceOfN(rapid.Bool(), 1, 6).Draw(t, "orders")
}

func putU32(b []byte, off int, be bool, v uint32) {
	if off+4 > len(b) {
		return
	}
	if be {
		binary.BigEndian.PutUint32(b[off:], v)
	} else {
		binary.LittleEndian.PutUint32(b[off:], v)
	}
}

func genWKB(t *rapid.T) ([]byte, string, bool) {
	src := rapid.SampledFrom([]string{"valid", "truncate", "flip", "count", "count", "count", "type", "flag", "nest", "trailing", "random", "prefixes", "multi"}).Draw(t, "src")
	if src == "random" {
		return rapid.SliceOfN(rapid.Byte(), 0, 64).Draw(t, "bytes"), src, false
	}
	g, orders := genValid(t)
	if rapid.IntRange(0, 39).Draw(t, "longarr") == 0 {
		// a point array longer than the decoder's 1024-point read block, really present in the input (16-50 KiB),
		// alone or nested: the count mutations below then inflate a count whose first blocks can be read
		n := rapid.SampledFrom([]int{1024, 1025, 1500, 2048, 2049, 3000}).Draw(t, "longn")
		pts := make([]vkit.P2, n)
		for i := range pts {
			pts[i] = vkit.MkP(float64(i), float64(-i))
		}
		switch rapid.IntRange(0, 5).Draw(t, "longwrap") {
		case 4, 5:
			// several long rings in one polygon (anything the rings of a polygon share - a buffer, a counter - has been
			// through a full block when the next long ring comes), each a full block, one point less or more, or two blocks
			var rings [][]vkit.P2
			for k, nr := 0, rapid.IntRange(2, 3).Draw(t, "longrings"); k < nr; k++ {
				m := rapid.SampledFrom([]int{1024, 1024, 1023, 1025, 2048, 5}).Draw(t, "longringn")
				if m > n {
					m = n
				}
				rings = append(rings, pts[:m])
			}
			g = vkit.GJ{T: "Polygon", Rings: rings}
		case 0:
			g = vkit.GJ{T: "LineString", Pts: pts}
		case 1:
			g = vkit.GJ{T: "Polygon", Rings: [][]vkit.P2{pts[:4], pts}}
		case 2:
			g = vkit.GJ{T: "MultiPolygon", Polys: [][][]vkit.P2{{pts[:3]}, {pts}}}
		default:
			g = vkit.GJ{T: "GeometryCollection", Geoms: []vkit.GJ{{T: "Point", Pts: pts[:1]}, {T: "MultiLineString", Rings: [][]vkit.P2{pts}}}}
		}
		if src == "count" {
			src = "count_long"
		}
	}
	lay := vkit.RefWKBLayout(g, orders)
	data := append([]byte(nil), lay.Data...)
	mut := func(kind string) {
		switch kind {
		case "truncate":
			data = data[:rapid.IntRange(0, len(data)).Draw(t, "cut")]
		case "flip":
			n := rapid.IntRange(1, 4).Draw(t, "nflip")
			for i := 0; i < n && len(data) > 0; i++ {
				data[rapid.IntRange(0, len(data)-1).Draw(t, "pos")] ^= 1 << uint(rapid.IntRange(0, 7).Draw(t, "bit"))
			}
		case "count", "count_long":
			if len(lay.Counts) > 0 {
				i := rapid.IntRange(0, len(lay.Counts)-1).Draw(t, "ci")
				if kind == "count_long" {
					// aim at the count of the longest array
					for j := range lay.Counts {
						if j+1 < len(lay.Counts) && lay.Counts[j+1]-lay.Counts[j] > 16000 || j+1 == len(lay.Counts) && len(data)-lay.Counts[j] > 16000 {
							i = j
						}
					}
				}
				// counts whose product with an element size wraps around 2^32 to a small number: ceil(j*2^32/s) plus a little,
				// for element sizes s up to 64 (8, 9, 16, 21, 24 are the sizes of this format's elements) - the values at
				// which a size check done in 32-bit arithmetic passes
				wrap := rapid.Custom(func(t *rapid.T) uint32 {
					sz := uint64(rapid.OneOf(rapid.SampledFrom([]int{8, 9, 16, 21, 24, 5, 4, 32}), rapid.IntRange(2, 64)).Draw(t, "wrapsize"))
					j := uint64(rapid.IntRange(1, int(sz)-1).Draw(t, "wrapj"))
					return uint32((j<<32+sz-1)/sz + uint64(rapid.IntRange(0, 3).Draw(t, "wrapextra")))
				})
				v := rapid.OneOf(rapid.SampledFrom(hostileCounts), rapid.Uint32Range(1<<16, 1<<24), rapid.Uint32(), wrap).Draw(t, "cv")
				putU32(data, lay.Counts[i], lay.CountBE[i], v)
			} else { // a point has no count: make it a line string header with a hostile count
				data = []byte{1, 2, 0, 0, 0, 0, 0, 0, 0x10}
			}
		case "type":
			i := rapid.IntRange(0, len(lay.Types)-1).Draw(t, "ti")
			// plain codes, unknown codes, and the ISO (1000*d + t: Z, M, ZM and beyond) and EWKB (flag bits 0x80/0x40/0x20
			// in the top byte) families that other writers emit for geometries with more ordinates or an SRID
			iso := rapid.Map(rapid.IntRange(0, 9*10+9), func(i int) uint32 { return uint32(i/10)*1000 + uint32(i%10) })
			ewkb := rapid.Map(rapid.IntRange(0, 8*9-1), func(i int) uint32 { return uint32(i/9)<<29 | uint32(i%9) })
			v := rapid.OneOf(rapid.SampledFrom([]uint32{0, 8, 15, 16, 17, 1001, 0x80000001, 0x20000001, 1 << 24}), rapid.Uint32Range(0, 8), iso, ewkb, rapid.Uint32()).Draw(t, "tv")
			if lay.Flags[i] < len(data) {
				putU32(data, lay.Types[i], data[lay.Flags[i]] == 0, v)
			}
		case "flag":
			i := rapid.IntRange(0, len(lay.Flags)-1).Draw(t, "fi")
			if fv := rapid.SampledFrom([]byte{2, 3, 0xff, 0x80, 0, 1}).Draw(t, "fv"); lay.Flags[i] < len(data) {
				data[lay.Flags[i]] = fv
			}
		case "trailing":
			data = append(data, rapid.SliceOfN(rapid.Byte(), 1, 16).Draw(t, "tail")...)
		case "nest":
			depth := rapid.SampledFrom([]int{10, 100, 1000, 3000, 7000}).Draw(t, "nestdepth")
			be := rapid.Bool().Draw(t, "nestbe")
			var hdr []byte
			if be {
				hdr = []byte{0, 0, 0, 0, 7, 0, 0, 0, 1}
			} else {
				hdr = []byte{1, 7, 0, 0, 0, 1, 0, 0, 0}
			}
			mode := rapid.SampledFrom([]string{"honest", "hostile", "credible"}).Draw(t, "nestmode")
			if mode == "hostile" {
				// every level announces a hostile member count (each level may pre-size its slice again)
				putU32(hdr, 5, be, rapid.SampledFrom(hostileCounts).Draw(t, "nestcount"))
			}
			inner := data
			if len(inner) > 200 {
				inner = inner[:0]
			}
			data = append(bytes.Repeat(hdr, depth), inner...)
			if mode == "credible" {
				// every level announces a count that the rest of the message could just about hold (one member per
				// remaining byte, or a fraction of that): large, yet not absurd for the bytes that follow
				div := rapid.SampledFrom([]int{1, 1, 2, 9, 21}).Draw(t, "nestdiv")
				for lvl := 0; lvl < depth; lvl++ {
					rest := len(data) - (lvl+1)*9
					putU32(data, lvl*9+5, be, uint32(rest/div))
				}
			}
		}
	}
	switch src {
	case "valid":
	case "prefixes":
		return data, src, true
	case "multi":
		n := rapid.IntRange(2, 4).Draw(t, "nmut")
		for i := 0; i < n; i++ {
			mut(rapid.SampledFrom([]string{"truncate", "flip", "count", "type", "flag", "trailing"}).Draw(t, "mk"))
		}
	default:
		mut(src)
	}
	return data, src, false
}

// ---- JSON document grammar ----

type jv struct {
	kind string // num str null bool arr obj raw
	raw  string
	arr  []jv
	keys []string
}

func (v jv) render(sb *strings.Builder) {
	switch v.kind {
	case "arr":
		sb.WriteByte('[')
		for i, e := range v.arr {
			if i > 0 {
				sb.WriteByte(',')
			}
			e.render(sb)
		}
		sb.WriteByte(']')
	case "obj":
		sb.WriteByte('{')
		for i, e := range v.arr {
			if i > 0 {
				sb.WriteByte(',')
			}
			fmt.Fprintf(sb, "%q:", v.keys[i])
			e.render(sb)
		}
		sb.WriteByte('}')
	default:
		sb.WriteString(v.raw)
	}
}

func genScalar(t *rapid.T) jv {
	return jv{kind: "raw", raw: rapid.SampledFrom([]string{"0", "1", "-1", "0.5", "1e5", "1E-7", "-0", "1e308", "1e999", "-1e999", "1e-400", "123456789012345678901234567890",
		"null", "true", "false", `"x"`, `""`, `"Point"`, "2.5", "3", "179.99999999999997", "{}", "[]", `{"a":1}`}).Draw(t, "scalar")}
}

func genNum(t *rapid.T) jv {
	return jv{kind: "raw", raw: rapid.SampledFrom([]string{"0", "1", "-1", "0.5", "1e5", "-0", "1e308", "2.5", "100.25", "-73.98", "1e-7", "4.9e-324"}).Draw(t, "num")}
}

// genCoords builds an array nest of the given depth; with probability noise it deviates (wrong arity, scalars, deeper/shallower nests).
func genCoords(t *rapid.T, depth int, noise int) jv {
	if noise > 0 && rapid.IntRange(0, 9).Draw(t, "dev") < noise {
		switch rapid.IntRange(0, 3).Draw(t, "devkind") {
		case 0:
			return genScalar(t)
		case 1:
			return genCoords(t, depth+1, noise-1)
		case 2:
			if depth > 1 {
				return genCoords(t, depth-1, noise-1)
			}
			return genScalar(t)
		default:
			return jv{kind: "arr"}
		}
	}
	if depth <= 1 {
		n := 2
		if noise > 0 {
			n = rapid.SampledFrom([]int{2, 2, 2, 0, 1, 3, 4}).Draw(t, "arity")
		}
		a := jv{kind: "arr"}
		for i := 0; i < n; i++ {
			if noise > 0 && rapid.IntRange(0, 9).Draw(t, "sdev") == 0 {
				a.arr = append(a.arr, genScalar(t))
			} else {
				a.arr = append(a.arr, genNum(t))
			}
		}
		return a
	}
	a := jv{kind: "arr"}
	n := rapid.IntRange(0, 3).Draw(t, "n")
	for i := 0; i < n; i++ {
		a.arr = append(a.arr, genCoords(t, depth-1, noise))
	}
	return a
}

var gjTypes = []string{"Point", "MultiPoint", "LineString", "MultiLineString", "Polygon", "MultiPolygon", "GeometryCollection", "point", "", "Feature"}
var gjDepth = map[string]int{"Point": 1, "MultiPoint": 2, "LineString": 2, "MultiLineString": 3, "Polygon": 3, "MultiPolygon": 4}

func genJSONDoc(t *rapid.T) (string, string) {
	src := rapid.SampledFrom([]string{"wellshaped", "noisy", "noisy", "wrongdepth", "keys", "deep", "garbage"}).Draw(t, "jsrc")
	typ := rapid.SampledFrom(gjTypes).Draw(t, "gjtype")
	d := gjDepth[typ]
	if d == 0 {
		d = rapid.IntRange(1, 4).Draw(t, "d")
	}
	var coords jv
	switch src {
	case "wellshaped":
		coords = genCoords(t, d, 0)
	case "noisy":
		coords = genCoords(t, d, rapid.IntRange(1, 3).Draw(t, "noise"))
	case "wrongdepth":
		coords = genCoords(t, rapid.IntRange(0, 6).Draw(t, "wd"), 0)
	case "deep":
		n := rapid.SampledFrom([]int{50, 1000, 9000, 11000, 30000}).Draw(t, "deepn")
		coords = jv{kind: "raw", raw: strings.Repeat("[", n) + "1" + strings.Repeat("]", n)}
	case "garbage":
		b := rapid.SliceOfN(rapid.Byte(), 0, 40).Draw(t, "garbage")
		return string(b), src
	default:
		coords = genCoords(t, d, 1)
	}
	obj := jv{kind: "obj"}
	tv := jv{kind: "raw", raw: fmt.Sprintf("%q", typ)}
	if src == "keys" {
		switch rapid.IntRange(0, 5).Draw(t, "keyvar") {
		case 0: // missing coordinates
			obj.keys, obj.arr = []string{"type"}, []jv{tv}
		case 1: // missing type
			obj.keys, obj.arr = []string{"coordinates"}, []jv{coords}
		case 2: // duplicates
			obj.keys, obj.arr = []string{"type", "coordinates", "coordinates", "type"}, []jv{tv, genCoords(t, d, 2), coords, tv}
		case 3: // type is not a string
			obj.keys, obj.arr = []string{"type", "coordinates"}, []jv{genScalar(t), coords}
		case 4: // extra members
			obj.keys, obj.arr = []string{"bbox", "type", "crs", "coordinates"}, []jv{genCoords(t, 1, 1), tv, genScalar(t), coords}
		default: // top level is not an object
			var sb strings.Builder
			coords.render(&sb)
			return sb.String(), src
		}
	} else {
		obj.keys, obj.arr = []string{"type", "coordinates"}, []jv{tv, coords}
	}
	var sb strings.Builder
	obj.render(&sb)
	return sb.String(), src
}

func gen(t *rapid.T) Case {
	var c Case
	c.Decoder = rapid.SampledFrom([]string{"wkb", "wkb", "wkb", "hex", "geojson", "geojson", "geojsonvalue"}).Draw(t, "decoder")
	switch c.Decoder {
	case "wkb":
		c.Data, c.Source, c.AllPrefixes = genWKB(t)
	case "hex":
		d, src, _ := genWKB(t)
		s := hex.EncodeToString(d)
		switch rapid.IntRange(0, 5).Draw(t, "hexvar") {
		case 0:
			s = strings.ToUpper(s)
		case 1:
			if len(s) > 0 {
				s = s[:len(s)-1] // odd length
				src += "+odd"
			}
		case 2:
			pos := rapid.IntRange(0, len(s)).Draw(t, "hpos")
			s = s[:pos] + rapid.SampledFrom([]string{"g", " ", "0x", "\n", "é"}).Draw(t, "hbad") + s[pos:]
			src += "+nonhex"
		}
		c.Data, c.Source = []byte(s), src
	case "geojson":
		if rapid.IntRange(0, 4).Draw(t, "fromvalid") == 0 {
			g := vkit.GenGJ(t, vkit.GeomOpts{Types: []string{"Point", "MultiPoint", "LineString", "MultiLineString", "Polygon", "MultiPolygon"},
				MaxMembers: 3, MaxPts: 3, FirstNonEmpty: true, Coord: vkit.CoordFinite()})
			b, err := geojson.Encode(g.Geom())
			if err != nil {
				b = []byte("{}")
			}
			c.Source = "valid"
			switch rapid.IntRange(0, 2).Draw(t, "jmut") {
			case 1:
				b = b[:rapid.IntRange(0, len(b)).Draw(t, "cut")]
				c.Source = "truncate"
			case 2:
				if len(b) > 0 {
					b[rapid.IntRange(0, len(b)-1).Draw(t, "pos")] = rapid.SampledFrom([]byte(`[]{},:"0 `)).Draw(t, "ch")
				}
				c.Source = "flip"
			}
			c.Data = b
		} else {
			s, src := genJSONDoc(t)
			c.Data, c.Source = []byte(s), src
		}
	case "geojsonvalue":
		s, src := genJSONDoc(t)
		c.Data, c.Source = []byte(s), "value:"+src
		c.Typed = rapid.IntRange(0, 5).Draw(t, "typed")
	}
	return c
}

// wellFormed: one of the seven value types, no nil members, recursively.
func wellFormed(g geom.Geom) string {
	switch v := g.(type) {
	case geom.Point, geom.MultiPoint, geom.LineString, geom.MultiLineString, geom.Polygon, geom.MultiPolygon:
		return ""
	case geom.GeometryCollection:
		for i, m := range v {
			if m == nil {
				return fmt.Sprintf("nil member %d in a GeometryCollection", i)
			}
			if s := wellFormed(m); s != "" {
				return s
			}
		}
		return ""
	case nil:
		return "nil geometry"
	}
	return fmt.Sprintf("unexpected type %T", g)
}

var memBefore, memAfter runtime.MemStats

// measured runs f and returns the bytes it allocated on the heap.
func measured(f func()) uint64 {
	runtime.ReadMemStats(&memBefore)
	f()
	runtime.ReadMemStats(&memAfter)
	return memAfter.TotalAlloc - memBefore.TotalAlloc
}

// typedValue converts a decoded JSON tree into other Go shapes the public API accepts in Geometry.Coordinates.
func typedValue(v interface{}, mode int) interface{} {
	arr, ok := v.([]interface{})
	if !ok {
		if f, isnum := v.(float64); isnum && mode == 3 {
			return int(f)
		}
		if f, isnum := v.(float64); isnum && mode == 4 && f == 2.5 {
			return math.NaN() // a Geometry value built in code can hold what JSON text cannot: 2.5 stands in for NaN
		}
		if f, isnum := v.(float64); isnum && mode == 4 && f == 100.25 {
			return math.Inf(1)
		}
		return v
	}
	if mode == 5 { // the fully typed slices that ToGeoJSON itself puts into Coordinates
		if t := fullyTyped(arr); t != nil {
			return t
		}
	}
	if mode == 1 {
		allnum := len(arr) > 0
		fs := make([]float64, len(arr))
		for i, e := range arr {
			f, isnum := e.(float64)
			if !isnum {
				allnum = false
				break
			}
			fs[i] = f
		}
		if allnum {
			return fs
		}
	}
	out := make([]interface{}, len(arr))
	for i, e := range arr {
		out[i] = typedValue(e, mode)
	}
	return out
}

// fullyTyped converts a rectangular nest of numbers into []float64 / [][]float64 / [][][]float64 / [][][][]float64.
func fullyTyped(arr []interface{}) interface{} {
	if len(arr) == 0 {
		return nil
	}
	if _, isnum := arr[0].(float64); isnum {
		fs := make([]float64, len(arr))
		for i, e := range arr {
			f, ok := e.(float64)
			if !ok {
				return nil
			}
			fs[i] = f
		}
		return fs
	}
	var l1 [][]float64
	var l2 [][][]float64
	var l3 [][][][]float64
	for _, e := range arr {
		sub, ok := e.([]interface{})
		if !ok {
			return nil
		}
		switch t := fullyTyped(sub).(type) {
		case []float64:
			l1 = append(l1, t)
		case [][]float64:
			l2 = append(l2, t)
		case [][][]float64:
			l3 = append(l3, t)
		default:
			return nil
		}
	}
	switch {
	case len(l1) == len(arr):
		return l1
	case len(l2) == len(arr):
		return l2
	case len(l3) == len(arr):
		return l3
	}
	return nil
}

var maxRatio float64

func decodeOnce(decoder string, data []byte, typed int) (g geom.Geom, err error, alloc uint64, pan string) {
	switch decoder {
	case "wkb":
		alloc = measured(func() { pan = vkit.Catch(func() { g, err = wkb.Decode(data) }) })
	case "hex":
		s := string(data)
		alloc = measured(func() { pan = vkit.Catch(func() { g, err = ghex.Decode(s) }) })
	case "geojson":
		alloc = measured(func() { pan = vkit.Catch(func() { g, err = geojson.Decode(data) }) })
	case "geojsonvalue":
		var gg *geojson.Geometry
		if typed != 2 {
			var obj map[string]interface{}
			if json.Unmarshal(data, &obj) != nil {
				obj = map[string]interface{}{"type": "Point", "coordinates": string(data)}
			}
			ty, _ := obj["type"].(string)
			gg = &geojson.Geometry{Type: ty, Coordinates: typedValue(obj["coordinates"], typed)}
		}
		alloc = measured(func() { pan = vkit.Catch(func() { g, err = geojson.FromGeoJSON(gg) }) })
	}
	return
}

func checkOne(decoder string, data []byte, typed int) (ok bool, msg string) {
	g, err, alloc, pan := decodeOnce(decoder, data, typed)
	if pan != "" {
		return false, "decoder panicked: " + pan
	}
	K := uint64(64)
	if decoder == "geojson" || decoder == "geojsonvalue" {
		K = 512
	}
	if r := float64(alloc) / float64(len(data)+1); err == nil && len(data) >= 512 && r > maxRatio {
		maxRatio = r
	}
	// Every count field may pre-size one slice of at most 1024 elements of at most 24 bytes, and a count field needs at
	// least a 9-byte header (or 4 bytes inside a polygon, which then needs its points): 24 KiB per 9 input bytes is the
	// constant the decoder is designed to have (measured on chains of nested collections with inflated counts: 2050 B/B).
	bound := K*uint64(len(data)) + 1<<20
	if decoder == "wkb" || decoder == "hex" {
		bound += uint64(len(data)/9+1) * 24 << 10
	}
	if alloc > bound {
		return false, fmt.Sprintf("decoding %d input bytes allocated %d bytes (bound %d*len + 24KiB per 9-byte header + 1MiB = %d): a count field in the input is trusted", len(data), alloc, K, bound)
	}
	if (g == nil) == (err == nil) {
		return false, fmt.Sprintf("result is neither (geometry, nil) nor (nil, error): g=%v err=%v", g, err)
	}
	if err != nil {
		return false, ""
	}
	if s := wellFormed(g); s != "" {
		return true, "decoded geometry is not well-formed: " + s
	}
	gj, okc := vkit.FromGeom(g)
	if !okc {
		return true, "decoded geometry cannot be walked"
	}
	// re-encode / decode fixpoint
	switch decoder {
	case "wkb", "hex":
		b, err := wkb.Encode(g, binary.LittleEndian)
		if err != nil {
			return true, "re-encoding the decoded geometry failed: " + err.Error()
		}
		g2, err := wkb.Decode(b)
		if err != nil {
			return true, "decoding the re-encoded geometry failed: " + err.Error()
		}
		if j2, ok2 := vkit.FromGeom(g2); !ok2 || !j2.Equal(gj, true) {
			return true, "decode(encode(decoded)) differs from decoded"
		}
	default:
		b, err := geojson.Encode(g)
		if err != nil {
			return true, "re-encoding the decoded geometry failed: " + err.Error()
		}
		g2, err := geojson.Decode(b)
		if err != nil {
			return true, fmt.Sprintf("decoding the re-encoded geometry %s failed: %v", b, err)
		}
		if j2, ok2 := vkit.FromGeom(g2); !ok2 || !j2.Equal(gj, false) {
			return true, "decode(encode(decoded)) differs from decoded"
		}
		// the same through Geometry values: ToGeoJSON re-encodes, FromGeoJSON decodes again
		gg, err := geojson.ToGeoJSON(g)
		if err != nil {
			return true, "ToGeoJSON of the decoded geometry failed: " + err.Error()
		}
		var g3 geom.Geom
		if p := vkit.Catch(func() { g3, err = geojson.FromGeoJSON(gg) }); p != "" {
			return true, "FromGeoJSON(ToGeoJSON(decoded)) panicked: " + p
		}
		if err != nil {
			return true, fmt.Sprintf("FromGeoJSON does not accept the Geometry value ToGeoJSON made of the decoded geometry (%T coordinates): %v", gg.Coordinates, err)
		}
		if j3, ok3 := vkit.FromGeom(g3); !ok3 || !j3.Equal(gj, false) {
			return true, "FromGeoJSON(ToGeoJSON(decoded)) differs from decoded"
		}
	}
	return true, ""
}

func run(c Case) (v vkit.Verdict) {
	v.Class(c.Decoder)
	v.Class(c.Decoder + "_" + strings.SplitN(c.Source, "+", 2)[0])
	if len(c.Data) > 64<<10 {
		v.Class("over_64KiB_skipped")
		return v
	}
	ok, msg := checkOne(c.Decoder, c.Data, c.Typed)
	if msg != "" {
		return v.Fail("%s input (%s, %d bytes): %s", c.Decoder, c.Source, len(c.Data), msg)
	}
	if ok {
		v.Class(c.Decoder + "_decoded_ok")
	}
	switch c.Decoder {
	case "wkb", "hex":
		// non-trivial: mutated from a valid encoding and not rejected at the first header byte
		first := len(c.Data) > 0 && (c.Data[0] == 0 || c.Data[0] == 1 || c.Decoder == "hex")
		v.NonTrivial = first && c.Source != "valid" && c.Source != "random"
	default:
		var any interface{}
		v.NonTrivial = json.Unmarshal(c.Data, &any) == nil
		if v.NonTrivial {
			v.Class("json_parses")
		}
	}
	if c.AllPrefixes {
		step := 1
		if len(c.Data) > 4096 {
			step = len(c.Data) / 2048 // long encodings: ~2000 evenly spaced prefixes plus the neighbourhood of every 16 KiB block
		}
		for n := 0; n < len(c.Data); n++ {
			if step > 1 && n%step != 0 && (n%16384 > 40 && n%16384 < 16384-40) {
				continue
			}
			okp, msg := checkOne(c.Decoder, c.Data[:n], 0)
			if msg != "" {
				return v.Fail("prefix of length %d of a valid %d-byte encoding: %s", n, len(c.Data), msg)
			}
			if okp && c.Decoder == "wkb" {
				// a proper prefix that decodes is legal only if the decoder ignores trailing bytes, i.e. the prefix is itself complete
				v.Class("prefix_decodes")
			}
		}
		v.Class("all_prefixes")
	}
	return v
}

func spec() vkit.Spec[Case] {
	return vkit.Spec[Case]{
		ID: "C07",
		Rule: "rapid: inputs <=64 KiB for wkb.Decode, hex.Decode, geojson.Decode and geojson.FromGeoJSON. WKB/hex: valid encodings of random nested geometries (mixed byte orders) " +
			"mutated by truncation (one drawn offset, or all prefixes exhaustively), 1-4 bit flips, count fields overwritten with hostile values (0,1,2,2^16..2^24 mostly, 2^28, 2^31, " +
			"2^32-1, byte-swapped small counts, and counts whose product with an element size of 2-64 bytes wraps around 2^32 to a small number; 1.7% of the base encodings carry a really present array of 1024-3000 points so that a count can be inflated behind full read blocks), unknown/extended type codes, bad byte-order flags, 10-7000 levels of nested collections, trailing garbage, 2-4 combined mutations, and " +
			"random bytes; hex additionally upper case, odd length, non-hex characters. GeoJSON: documents from a grammar (well-shaped, noisy arity/scalars/depth, wrong depth, " +
			"missing/duplicate/extra keys, non-string type, 50-30000 levels of arrays, huge/tiny numbers, garbage bytes) and mutated valid encodings; Geometry values with " +
			"[]interface{}, []float64, fully typed [][]float64... slices, int, NaN/Inf and nil-pointer shapes; decoded geometries are also re-encoded with ToGeoJSON and decoded with FromGeoJSON. Oracle per call: no panic; exactly one of geometry/error; geometry well-formed; heap bytes allocated during " +
			"the call <= K*len(input)+1MiB (K=64 WKB/hex, 512 GeoJSON) plus, for WKB/hex, 24 KiB per 9 input bytes (one pre-sized slice of <= 1024 elements per header; so chains of up to 7000 nested collections that each announce a hostile count, or a count the remaining bytes could just hold, stay linear); on success decode(encode(g)) == g. Non-trivial = WKB/hex input derived from a valid encoding by >=1 " +
			"mutation and not rejected at the first byte, or JSON text that parses. Distinct by case hash. notes.max_honest_alloc_ratio = largest allocated/input ratio among successful decodes of inputs >= 512 bytes." +
			" Round 10: polygons with two or three long rings (1023, 1024, 1025 or 2048 points each).",
		Assumptions:  []string{"allocation is measured with runtime.MemStats.TotalAlloc around a single-goroutine call (heap bytes, not peak RSS)", "constants K chosen 10x above honest decoding"},
		Gen:          gen,
		Run:          run,
		Guard:        true,
		GuardTimeout: 20e9,
	}
}

func TestProp(t *testing.T) {
	s := spec()
	s.Extra = func(ev *vkit.Ev[Case], tier string) {
		// saved native-fuzz crashers are replayed as ordinary cases
		files, _ := filepath.Glob(filepath.Join(vkit.VerifDir(), "props", "c07", "testdata", "fuzz", "*", "*"))
		for _, f := range files {
			c, ok := caseFromFuzzFile(f)
			if !ok {
				continue
			}
			v := vkit.SafeRun(run, c)
			ev.Record(c, v)
			if v.Bad {
				ev.Violate(c, "native-fuzz crasher "+f+": "+v.Msg, "C07-fuzz-"+filepath.Base(f)+".json")
			}
		}
	}
	s.Finish = func(ev *vkit.Ev[Case]) { ev.Notes["max_honest_alloc_ratio"] = math.Round(maxRatio*10) / 10 }
	vkit.Main(t, s)
}

// caseFromFuzzFile parses a go native fuzz corpus file ("go test fuzz v1\n[]byte(\"...\")\n") of one of our targets.
func caseFromFuzzFile(path string) (Case, bool) {
	b, err := os.ReadFile(path)
	if err != nil {
		return Case{}, false
	}
	lines := strings.Split(string(b), "\n")
	if len(lines) < 2 || !strings.HasPrefix(lines[0], "go test fuzz v1") {
		return Case{}, false
	}
	l := strings.TrimSpace(lines[1])
	var data []byte
	switch {
	case strings.HasPrefix(l, "[]byte("):
		s, err := unquoteGo(l[len("[]byte(") : len(l)-1])
		if err != nil {
			return Case{}, false
		}
		data = []byte(s)
	case strings.HasPrefix(l, "string("):
		s, err := unquoteGo(l[len("string(") : len(l)-1])
		if err != nil {
			return Case{}, false
		}
		data = []byte(s)
	default:
		return Case{}, false
	}
	dec := map[string]string{"FuzzWKB": "wkb", "FuzzHex": "hex", "FuzzGeoJSON": "geojson"}[filepath.Base(filepath.Dir(path))]
	if dec == "" {
		return Case{}, false
	}
	return Case{Decoder: dec, Data: data, Source: "nativefuzz"}, true
}
