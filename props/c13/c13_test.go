// C13 — Simplify keeps endpoints, stays within tolerance and adds no self-intersection.
package c13

import (
	"math"
	"reflect"
	"testing"

	"github.com/ctessum/geom"
	"pgregory.net/rapid"
	"verif/vkit"
)

type Case struct {
	Kind  string        `json:"kind"` // line | multiline | polygon | multipolygon
	Lines [][]vkit.P2   `json:"lines,omitempty"`
	Polys [][][]vkit.P2 `json:"polys,omitempty"`
	Tol   vkit.F        `json:"tol"`
	Style string        `json:"style,omitempty"`
	// ScaleExp k: Simplify is called on the case multiplied exactly by 2^k (coordinates and tolerance) and its output is
	// divided by 2^k again before the oracle looks at it, so the oracle's margins stay at unit scale
	ScaleExp int `json:"scale_exp,omitempty"`
	// ThinExp k (kind "thin"): the y-coordinates and the tolerance are small integers (halves for the tolerance) times
	// 2^-k, the x-coordinates ordinary increasing integers: a line that is straight to within 2^-k
	ThinExp int `json:"thin_exp,omitempty"`
	noSweep bool
}

func randLine(t *rapid.T, maxN int) []vkit.P2 {
	n := rapid.IntRange(0, maxN).Draw(t, "n")
	var cg *rapid.Generator[float64]
	if rapid.Bool().Draw(t, "lattice") {
		cg = rapid.Map(rapid.IntRange(-4, 4), func(i int) float64 { return float64(i) })
	} else {
		cg = rapid.Float64Range(-10, 10)
	}
	l := make([]vkit.P2, n)
	for i := range l {
		l[i] = vkit.MkP(cg.Draw(t, "x"), cg.Draw(t, "y"))
	}
	return l
}

// genPoke: a shallow bay (three vertices, the apex h off the base) at the start, a detour of m vertices that stays clear
// of the bay, and a last segment that pokes into the bay through its base: the short cut across the bay is within
// tolerance h*f of the apex, but crosses a segment that comes m+1 segments later. Returns the line and a tolerance.
func genPoke(t *rapid.T) ([]vkit.P2, float64) {
	w := rapid.Float64Range(2, 6).Draw(t, "bayw")
	h := rapid.Float64Range(0.2, 1).Draw(t, "bayh")
	m := rapid.IntRange(1, 70).Draw(t, "detour")
	if rapid.IntRange(0, 3).Draw(t, "longdetour") == 0 {
		// long detours whose length is next to a multiple of a block size (16, 32, 64, 128), so that the segment that comes
		// back sits at and next to a block boundary of any code that looks at the rest of the line block by block
		blk := rapid.SampledFrom([]int{16, 32, 64, 128, 256, 512, 1024, 1024}).Draw(t, "detourblock")
		m = blk*rapid.IntRange(1, 4).Draw(t, "detourk") + rapid.IntRange(-6, 3).Draw(t, "detouroff")
		if blk >= 512 {
			m = blk*rapid.IntRange(1, 2).Draw(t, "detourk2") + rapid.IntRange(-4, 0).Draw(t, "detouroff2") // up to 2048 vertices
		}
	}
	l := [][2]float64{{0, 0}, {w / 2, h}, {w, 0}, {w + 1, -1}}
	// a zigzag back to the left, below the base
	x0, x1 := w+1, w/2+rapid.Float64Range(-w/8, w/8).Draw(t, "pokex")
	amp := rapid.Float64Range(0.05, 1.5).Draw(t, "zigamp")
	for k := 1; k <= m; k++ {
		y := -1.5
		if k%2 == 0 {
			y -= amp
		}
		if k == m {
			y = -1.5
		}
		l = append(l, [2]float64{x0 + (x1-x0)*float64(k)/float64(m), y})
	}
	py := h * rapid.Float64Range(0.1, 0.5).Draw(t, "pokey")
	l = append(l, [2]float64{x1, py})
	if rapid.Bool().Draw(t, "pokemore") {
		// one or two more vertices inside the bay: the segment that comes in is then not the last one of the line (and not
		// the last one of whatever piece of the rest a block-wise scan looks at)
		for k, nk := 1, rapid.IntRange(1, 2).Draw(t, "pokemoren"); k <= nk; k++ {
			l = append(l, [2]float64{x1 + w/40*float64(k), py * (1 + 0.1*float64(k))})
		}
	}
	// rigid motion, so that nothing is axis-parallel
	a := rapid.Float64Range(0, 2*math.Pi).Draw(t, "pokerot")
	ox, oy := rapid.Float64Range(-20, 20).Draw(t, "pokeox"), rapid.Float64Range(-20, 20).Draw(t, "pokeoy")
	out := make([]vkit.P2, len(l))
	for i, q := range l {
		out[i] = vkit.MkP(ox+q[0]*math.Cos(a)-q[1]*math.Sin(a), oy+q[0]*math.Sin(a)+q[1]*math.Cos(a))
	}
	return out, h * rapid.Float64Range(1.05, 3).Draw(t, "poketol")
}

// genWeave: a comb of tall spikes hanging from above, then a vertex S on the left, then a long tail that runs to the right
// under the spike tips inside a band narrower than the tolerance (rising between the tips, dipping under them). Seen from S
// the whole tail is within tolerance, so the scan reaches the end; the closing segment from S cuts through spike tips and
// is refused, the scan backs off to a vertex inside the tail and starts again from there, and from that vertex the chords
// to later tail vertices leave the tolerance and cut through later spike tips: the code that carries on after a refused
// closing segment is exercised with obstacles made of output kept before the refusal. All choices are a fixed mixing
// function (splitmix64) of one drawn value, so the positions are uniform rather than rapid's favourite small numbers.
func genWeave(t *rapid.T) ([]vkit.P2, float64) {
	x := rapid.Uint64().Draw(t, "weaveseed")
	next := func() uint64 {
		x += 0x9e3779b97f4a7c15
		z := x
		z = (z ^ (z >> 30)) * 0xbf58476d1ce4e5b9
		z = (z ^ (z >> 27)) * 0x94d049bb133111eb
		return z ^ (z >> 31)
	}
	uni := func(a, b float64) float64 { return a + (b-a)*float64(next()>>11)/(1<<53) }
	tol := uni(0.5, 5)
	w := tol * uni(0.3, 1.1) // half-width of the band
	n := 5 + int(next()%14)
	H := tol * uni(20, 60)
	grow := uni(1.0, 1.7)
	tail := make([][2]float64, 0, n)
	px, step := 0.0, tol*uni(0.3, 4)
	for k := 0; k < n; k++ {
		px += step * uni(0.5, 1.5)
		step *= grow
		tail = append(tail, [2]float64{px, uni(-w, w)})
	}
	// spikes: in some gaps between two tail vertices, a tip just above the tail segment
	var spikes [][3]float64 // x, tip y, half width
	prev := [2]float64{0, 0}
	pSpike := uni(0.15, 0.7)
	for _, q := range tail {
		if uni(0, 1) < pSpike {
			f := uni(0.2, 0.8)
			sx := prev[0] + f*(q[0]-prev[0])
			sy := prev[1] + f*(q[1]-prev[1]) + tol*uni(0.02, 0.4)
			spikes = append(spikes, [3]float64{sx, sy, 0.1 * (q[0] - prev[0])})
		}
		prev = q
	}
	var l [][2]float64
	l = append(l, [2]float64{px + step, H})
	for i := len(spikes) - 1; i >= 0; i-- {
		sp := spikes[i]
		l = append(l, [2]float64{sp[0] + sp[2], H}, [2]float64{sp[0], sp[1]}, [2]float64{sp[0] - sp[2], H})
	}
	l = append(l, [2]float64{-tol * uni(1, 10), H}, [2]float64{0, 0})
	l = append(l, tail...)
	a := uni(0, 2*math.Pi)
	ox, oy := uni(-50, 50), uni(-50, 50)
	out := make([]vkit.P2, len(l))
	for i, q := range l {
		out[i] = vkit.MkP(ox+q[0]*math.Cos(a)-q[1]*math.Sin(a), oy+q[0]*math.Sin(a)+q[1]*math.Cos(a))
	}
	return out, tol
}

func genLine(t *rapid.T) ([]vkit.P2, string) {
	style := rapid.SampledFrom([]string{"walk", "walk", "spiral", "inspiral", "zigzag", "hook", "hook", "random", "short"}).Draw(t, "style")
	switch style {
	case "random":
		return randLine(t, 20), style
	case "short":
		return randLine(t, 2), style
	}
	n := rapid.IntRange(1, 40).Draw(t, "n")
	if rapid.IntRange(0, 39).Draw(t, "long") == 0 {
		n = rapid.IntRange(200, 600).Draw(t, "nlong") // long inputs (block-wise or size-dependent code paths)
	}
	return vkit.GrowLine(t, n, style), style
}

func genTol(t *rapid.T) vkit.F {
	return vkit.F(rapid.OneOf(
		rapid.SampledFrom([]float64{0, 1e-12, 0.5, 1, 1e9, math.Inf(1)}),
		rapid.Float64Range(0, 0.3),
		rapid.Float64Range(0, 5),
	).Draw(t, "tol"))
}

func gen(t *rapid.T) Case {
	var c Case
	c.Kind = rapid.SampledFrom([]string{"line", "line", "line", "line", "multiline", "polygon", "multipolygon", "batch"}).Draw(t, "kind")
	c.Tol = genTol(t)
	if rapid.IntRange(0, 24).Draw(t, "thin") == 13 {
		// an x-monotone line whose vertices leave the x-axis by a few units of 2^-k only, k up to the subnormal range, with
		// a tolerance of the same order (or zero): every distance that matters is far below the rounding unit of the
		// x-coordinates, yet exactly representable
		c.Kind = "thin"
		c.ThinExp = rapid.SampledFrom([]int{60, 300, 520, 540, 700, 1000, 1060}).Draw(t, "thinexp")
		u := math.Ldexp(1, -c.ThinExp)
		n := rapid.IntRange(3, 12).Draw(t, "thinn")
		x := 0.0
		var l []vkit.P2
		for i := 0; i < n; i++ {
			l = append(l, vkit.MkP(x, float64(rapid.IntRange(-8, 8).Draw(t, "thiny"))*u))
			x += float64(rapid.IntRange(1, 4).Draw(t, "thindx"))
		}
		if rapid.Bool().Draw(t, "thinflatends") {
			l[0][1], l[n-1][1] = 0, 0
		}
		c.Lines = [][]vkit.P2{l}
		c.Tol = vkit.F(float64(rapid.SampledFrom([]int{0, 0, 1, 2, 3, 5, 8, 40}).Draw(t, "thintol")) / 2 * u)
		return c
	}
	if rapid.IntRange(0, 19).Draw(t, "farback") == 7 {
		// round 13: a line that runs 2^20 to 2^60 units away and comes back to within 1 to 2^(a-10) units of where it
		// started, across the direction it left in - offsets of very different sizes from one vertex - and the whole of it
		// (half of the cases) multiplied by 2^440..2^560 or 2^-560..2^-440, where products of two offsets leave the range
		// of float64 unless they are rescaled; everything is a small integer times a power of two, so the scaling is exact
		c.Kind = "farback"
		a := rapid.IntRange(20, 60).Draw(t, "fara")
		cexp := rapid.IntRange(0, a-10).Draw(t, "farc")
		sx, sy := float64(rapid.IntRange(0, 8).Draw(t, "farsx")), float64(rapid.IntRange(0, 8).Draw(t, "farsy"))
		p, q := rapid.IntRange(-3, 3).Draw(t, "farp"), rapid.IntRange(-3, 3).Draw(t, "farq")
		if p == 0 && q == 0 {
			p = 1
		}
		A, C := math.Ldexp(1, a), math.Ldexp(1, cexp)
		l := []vkit.P2{vkit.MkP(sx, sy)}
		for k, n := 0, rapid.IntRange(0, 2).Draw(t, "farpre"); k < n; k++ {
			l = append(l, vkit.MkP(sx+float64(rapid.IntRange(-4, 4).Draw(t, "farprex"))*C, sy+float64(rapid.IntRange(-4, 4).Draw(t, "farprey"))*C))
		}
		l = append(l, vkit.MkP(sx+float64(p)*A, sy+float64(q)*A))
		for k, n := 0, rapid.IntRange(1, 3).Draw(t, "farpost"); k < n; k++ {
			j := rapid.IntRange(1, 4).Draw(t, "farj")
			if rapid.Bool().Draw(t, "farside") {
				j = -j
			}
			l = append(l, vkit.MkP(sx-float64(q*j)*C+float64(rapid.IntRange(-1, 1).Draw(t, "farjx"))*C, sy+float64(p*j)*C+float64(rapid.IntRange(-1, 1).Draw(t, "farjy"))*C))
		}
		if rapid.IntRange(0, 3).Draw(t, "farclose") == 0 {
			l = append(l, l[0])
		}
		c.Lines = [][]vkit.P2{l}
		c.Tol = vkit.F(rapid.SampledFrom([]float64{0.5, C, 8 * C, A / 8, 64 * A}).Draw(t, "fartol"))
		switch rapid.IntRange(0, 3).Draw(t, "farscale") {
		case 0, 1:
			c.ScaleExp = rapid.IntRange(440, 560).Draw(t, "farscaleup")
		case 2:
			c.ScaleExp = -rapid.IntRange(440, 560).Draw(t, "farscaledown")
		}
		return c
	}
	if rapid.IntRange(0, 19).Draw(t, "flatpoke") == 11 {
		// a poke line whose bay is flat beyond anything a margin would call general position: a base of length w, an apex
		// only w*2^-k off it (k = 20..42), and a last segment that comes in almost parallel to the base - from a point a
		// little behind and below the start of the base to a point inside the bay - so that it crosses the short cut across
		// the bay at an angle of 1e-6 down to a few 1e-13. Drawn in an oblique frame; judged with exact arithmetic.
		c.Kind = "flatpoke"
		w := rapid.Float64Range(100, 2000).Draw(t, "fw")
		k := rapid.IntRange(20, 42).Draw(t, "fk")
		h := math.Ldexp(w, -k)
		e := h * rapid.Float64Range(2, 30).Draw(t, "fe")
		L := w * rapid.Float64Range(0.3, 1.5).Draw(t, "fL")
		l := [][2]float64{{0, 0}, {w / 2, h}, {w, 0}, {w + w/10, -w / 5}}
		m := rapid.IntRange(1, 6).Draw(t, "fdetour")
		for i := 1; i <= m; i++ { // back to the left, well below the base
			l = append(l, [2]float64{w + w/10 - (w+w/10+L)*float64(i)/float64(m+1), -w/5 - w/20*float64(i%2)})
		}
		l = append(l, [2]float64{-L, -e}, [2]float64{w / 2 * rapid.Float64Range(0.6, 0.95).Draw(t, "fdx"), h / 2 * rapid.Float64Range(0.3, 0.9).Draw(t, "fdy")})
		a := rapid.Float64Range(0.2, 1.3).Draw(t, "frot") + math.Pi/2*float64(rapid.IntRange(0, 3).Draw(t, "fquad"))
		ox, oy := rapid.Float64Range(-500, 500).Draw(t, "fox"), rapid.Float64Range(-500, 500).Draw(t, "foy")
		out := make([]vkit.P2, len(l))
		for i, q := range l {
			out[i] = vkit.MkP(ox+q[0]*math.Cos(a)-q[1]*math.Sin(a), oy+q[0]*math.Sin(a)+q[1]*math.Cos(a))
		}
		c.Lines, c.Style = [][]vkit.P2{out}, "flatpoke"
		c.Tol = vkit.F(h * rapid.Float64Range(1.2, 3).Draw(t, "ftol"))
		return c
	}
	if rapid.IntRange(0, 24).Draw(t, "thinwalk") == 7 {
		// a simple line like any other, flattened: its y-coordinates are handed to Simplify multiplied by 2^-k (an affine
		// map: what crosses, crosses; what is simple, stays simple), so that every cross product of two of its segments is
		// far below the rounding unit of its x-coordinates
		c.Kind = "thinwalk"
		c.ThinExp = rapid.SampledFrom([]int{300, 520, 540, 700, 1000}).Draw(t, "thinwalkexp")
		if rapid.IntRange(0, 2).Draw(t, "thinpoke") == 0 {
			l, tol := genPoke(t)
			c.Lines, c.Style, c.Tol = [][]vkit.P2{l}, "poke", vkit.F(tol)
		} else {
			l, st := genLine(t)
			c.Lines, c.Style = [][]vkit.P2{l}, st
		}
		return c
	}
	if c.Kind == "batch" {
		// 120 short lines of 5-9 random points (or of 8-15, grown point by point) in a 20x20 box with a tolerance of the box's order: the lines on which the
		// scan overshoots and has to back off (each is simplified and judged on its own; most are not simple and only
		// count for the clauses that do not need simplicity)
		// rapid's integer and float generators favour small and boundary values, which makes most such lines degenerate
		// (collinear, coincident points); the coordinates are therefore a fixed mixing function (splitmix64) of ONE drawn
		// 64-bit value, i.e. still a pure function of rapid's choices, but uniform over the box
		x := rapid.Uint64().Draw(t, "boxseed")
		next := func() uint64 {
			x += 0x9e3779b97f4a7c15
			z := x
			z = (z ^ (z >> 30)) * 0xbf58476d1ce4e5b9
			z = (z ^ (z >> 27)) * 0x94d049bb133111eb
			return z ^ (z >> 31)
		}
		lattice := next()%2 == 0
		c.Tol = vkit.F(1 + float64(next()%9))
		if !lattice {
			c.Tol = vkit.F(1 + 9*float64(next()>>11)/(1<<53))
		}
		grown := next()%4 != 0 // 3 batches in 4: lines grown point by point, each new segment clear of the line so far
		uni := func() float64 { return 20 * float64(next()>>11) / (1 << 53) }
		for i := 0; i < 120; i++ {
			n := 5 + int(next()%5)
			if grown {
				n = 8 + int(next()%8)
				l := []vkit.P2{vkit.MkP(uni(), uni())}
				for len(l) < n {
					ok := false
					for try := 0; try < 20 && !ok; try++ {
						if cand := vkit.MkP(uni(), uni()); vkit.SegClear(l, cand, 1e-3) {
							l = append(l, cand)
							ok = true
						}
					}
					if !ok {
						break
					}
				}
				c.Lines = append(c.Lines, l)
				continue
			}
			l := make([]vkit.P2, n)
			for j := range l {
				if lattice {
					l[j] = vkit.MkP(float64(next()%21), float64(next()%21))
				} else {
					l[j] = vkit.MkP(uni(), uni())
				}
			}
			c.Lines = append(c.Lines, l)
		}
		return c
	}
	if rapid.IntRange(0, 2).Draw(t, "scaled") == 0 {
		c.ScaleExp = rapid.OneOf(rapid.IntRange(-40, 40), rapid.IntRange(-300, 300)).Draw(t, "scale_exp")
	}
	switch c.Kind {
	case "line":
		l, s := genLine(t)
		c.Lines, c.Style = [][]vkit.P2{l}, s
		if rapid.IntRange(0, 5).Draw(t, "poke") == 2 {
			var tol float64
			l, tol = genPoke(t)
			c.Lines, c.Style, c.Tol = [][]vkit.P2{l}, "poke", vkit.F(tol)
			if c.ScaleExp != 0 {
				// the tolerance has to scale exactly with the line
				c.Tol = vkit.F(math.Ldexp(math.Round(math.Ldexp(tol, 20)), -20))
			}
		} else if rapid.IntRange(0, 3).Draw(t, "weave") == 1 {
			l, tol := genWeave(t)
			c.Lines, c.Style, c.Tol = [][]vkit.P2{l}, "weave", vkit.F(math.Ldexp(math.Round(math.Ldexp(tol, 20)), -20))
		}
	case "multiline":
		n := rapid.IntRange(0, 3).Draw(t, "nl")
		for i := 0; i < n; i++ {
			l, _ := genLine(t)
			// members related to their predecessor: chained at the end point, or an exact copy
			if i > 0 && len(c.Lines[i-1]) > 0 && len(l) > 0 {
				prev := c.Lines[i-1]
				switch rapid.IntRange(0, 3).Draw(t, "relate") {
				case 0:
					dx, dy := float64(prev[len(prev)-1][0])-float64(l[0][0]), float64(prev[len(prev)-1][1])-float64(l[0][1])
					for k := range l {
						l[k] = vkit.MkP(float64(l[k][0])+dx, float64(l[k][1])+dy)
					}
					l[0] = prev[len(prev)-1]
				case 1:
					l = append([]vkit.P2(nil), prev...)
				}
			}
			c.Lines = append(c.Lines, l)
		}
	case "polygon", "multipolygon":
		np := 1
		if c.Kind == "multipolygon" {
			np = rapid.IntRange(0, 3).Draw(t, "np")
		}
		for i := 0; i < np; i++ {
			var rings [][]vkit.P2
			if rapid.Bool().Draw(t, "star") {
				rings, _ = vkit.StarPolygon(t, float64(i)*30, 0, 10, 2)
				for j := range rings {
					// more vertices: subdivide edges so that simplification has something to drop
					rings[j] = subdivide(t, rings[j])
					rings[j] = vkit.Respell(t, rings[j])
				}
			} else {
				nr := rapid.IntRange(0, 3).Draw(t, "nr")
				for j := 0; j < nr; j++ {
					rings = append(rings, randLine(t, 10))
				}
			}
			if i > 0 && rapid.IntRange(0, 3).Draw(t, "copyprev") == 0 {
				rings = nil
				for _, r := range c.Polys[i-1] {
					rings = append(rings, append([]vkit.P2(nil), r...))
				}
			}
			c.Polys = append(c.Polys, rings)
		}
	}
	return c
}

func subdivide(t *rapid.T, r []vkit.P2) []vkit.P2 {
	var out []vkit.P2
	n := len(r)
	for i := range r {
		a, b := r[i], r[(i+1)%n]
		out = append(out, a)
		k := rapid.IntRange(0, 2).Draw(t, "sub")
		for s := 1; s <= k; s++ {
			f := float64(s) / float64(k+1)
			jit := rapid.Float64Range(-0.05, 0.05).Draw(t, "jit")
			dx, dy := float64(b[0])-float64(a[0]), float64(b[1])-float64(a[1])
			out = append(out, vkit.MkP(float64(a[0])+f*dx-jit*dy*0.1, float64(a[1])+f*dy+jit*dx*0.1))
		}
	}
	return out
}

func toPath(l []vkit.P2) geom.Path {
	out := make(geom.Path, len(l))
	for i, p := range l {
		out[i] = p.Pt()
	}
	return out
}

// checkCurve verifies the subsequence / endpoint / tolerance clauses for one input curve and its output.
// It returns the number of dropped vertices.
func checkCurve(in, out geom.Path, tol float64) (dropped int, msg string) {
	return checkCurveSlack(in, out, tol, -1)
}

// checkCurveSlack: slack < 0 selects the default rounding allowance (see below).
func checkCurveSlack(in, out geom.Path, tol, slackGiven float64) (dropped int, msg string) {
	n, m := len(in), len(out)
	if n == 0 {
		if m != 0 {
			return 0, "empty input gave a non-empty output"
		}
		return 0, ""
	}
	if m == 0 || out[0] != in[0] || out[m-1] != in[n-1] {
		return 0, "first/last vertex not kept"
	}
	if n == 1 {
		if m != 1 {
			return 0, "one-vertex input must come back as one vertex"
		}
		return 0, ""
	}
	if m < 2 || m > n {
		return 0, "output length out of range"
	}
	// does an increasing index map 0=i_0<...<i_{m-1}=n-1 exist with in[i_t]==out[t] and all skipped vertices within tol?
	// rounding allowance: the code locates the foot of the perpendicular in absolute coordinates, so its distances carry an
	// error of a few ulps of the largest coordinate (1e-12 at |x| ~ 1e3, 1e-7 at 1e8 - long spirals reach that)
	maxabs := 0.0
	for _, q := range in {
		maxabs = math.Max(maxabs, math.Max(math.Abs(q.X), math.Abs(q.Y)))
	}
	slack := 1e-12 + 16*maxabs*0x1p-52
	if slackGiven >= 0 {
		slack = slackGiven
	}
	within := func(i, j int) bool {
		for k := i + 1; k < j; k++ {
			d := vkit.DistPtSeg(vkit.MkP(in[k].X, in[k].Y), vkit.MkP(in[i].X, in[i].Y), vkit.MkP(in[j].X, in[j].Y))
			if d > tol*(1+1e-9)+slack {
				return false
			}
		}
		return true
	}
	reach := make([]bool, n) // reach[i]: out[0..t] can be mapped with out[t] -> i
	reach[0] = true
	subseqOnly := make([]bool, n)
	subseqOnly[0] = true
	for tt := 1; tt < m; tt++ {
		next := make([]bool, n)
		nextS := make([]bool, n)
		for j := 1; j < n; j++ {
			if in[j] != out[tt] {
				continue
			}
			for i := 0; i < j; i++ {
				if subseqOnly[i] {
					nextS[j] = true
				}
				if reach[i] && within(i, j) {
					next[j] = true
				}
			}
		}
		reach, subseqOnly = next, nextS
	}
	if !subseqOnly[n-1] {
		return 0, "output is not an order-preserving subsequence of the input ending at the last vertex"
	}
	if !reach[n-1] {
		return 0, "a dropped vertex is farther than the tolerance from the output segment that replaces it"
	}
	return n - m, ""
}

// isSimple: no two non-adjacent segments within margin; adjacent ones only share their vertex.
func isSimple(l []vkit.P2, margin float64) bool {
	n := len(l)
	for i := 0; i+1 < n; i++ {
		if vkit.DistPtSeg(l[i], l[i+1], l[i+1]) <= margin {
			return false
		}
		for j := i + 1; j+1 < n; j++ {
			if j == i+1 {
				if vkit.DistPtSeg(l[j+1], l[i], l[i+1]) <= margin || vkit.DistPtSeg(l[i], l[j], l[j+1]) <= margin {
					return false
				}
				continue
			}
			if vkit.SegSegDist(l[i], l[i+1], l[j], l[j+1]) <= margin {
				return false
			}
		}
	}
	return true
}

// crossing returns the first pair of non-adjacent output segments that properly cross with a clear margin.
func crossing(l geom.Path, eps float64) (int, int, bool) {
	p := func(q geom.Point) vkit.P2 { return vkit.MkP(q.X, q.Y) }
	for i := 0; i+1 < len(l); i++ {
		for j := i + 2; j+1 < len(l); j++ {
			if vkit.SegIntersectProper(p(l[i]), p(l[i+1]), p(l[j]), p(l[j+1]), eps) {
				return i, j, true
			}
		}
	}
	return 0, 0, false
}

// scalePath multiplies by a power of two (exact in the normal range); a nil/empty path stays as it is.
func scalePath(p geom.Path, f float64) geom.Path {
	if p == nil {
		return nil
	}
	out := make(geom.Path, len(p))
	for i, q := range p {
		out[i] = geom.Point{X: q.X * f, Y: q.Y * f}
	}
	return out
}

// cloneGJ deep-copies the coordinate arrays (FromGeom of a value aliases nothing, but be explicit).
func cloneGJ(g vkit.GJ) vkit.GJ {
	out := vkit.GJ{T: g.T}
	for _, p := range g.Polys {
		var pp [][]vkit.P2
		for _, r := range p {
			pp = append(pp, append([]vkit.P2(nil), r...))
		}
		out.Polys = append(out.Polys, pp)
	}
	return out
}

func run(c Case) (v vkit.Verdict) {
	tol := float64(c.Tol)
	sc, inv := math.Ldexp(1, c.ScaleExp), math.Ldexp(1, -c.ScaleExp)
	if c.ScaleExp != 0 {
		// the scaling must be exact (no underflow/overflow of a tiny or huge coordinate), otherwise the case runs unscaled
		exact := math.IsInf(tol, 0) || (tol*sc)*inv == tol
		chk := func(r []vkit.P2) {
			for _, p := range r {
				for _, f := range p {
					if x := float64(f); (x*sc)*inv != x || (x != 0 && math.Abs(x*sc) < 1e-290) || math.IsInf(x*sc, 0) {
						exact = false
					}
				}
			}
		}
		for _, l := range c.Lines {
			chk(l)
		}
		for _, pg := range c.Polys {
			for _, r := range pg {
				chk(r)
			}
		}
		if exact {
			v.Class("scaled_by_power_of_two")
		} else {
			sc, inv = 1, 1
			v.Class("scaling_not_exact_run_unscaled")
		}
	}
	v.Class(c.Kind)
	if c.Kind == "thin" {
		in := geom.LineString(toPath(c.Lines[0]))
		orig := append(geom.LineString(nil), in...)
		out := in.Simplify(tol).(geom.LineString)
		if !reflect.DeepEqual(in, orig) {
			return v.Fail("input line was modified")
		}
		// distances and tolerance are multiples of 2^-k/80 at least; the allowance is a millionth of 2^-k (the foot of the
		// perpendicular is uncertain by ulps of x, which changes the distance to a nearly horizontal chord by far less)
		d, msg := checkCurveSlack(geom.Path(in), geom.Path(out), tol, 1e-6*math.Ldexp(1, -c.ThinExp))
		if msg != "" {
			return v.Fail("line straight to within 2^-%d (%d vertices, tol %v = %v units): %s; input %v output %v", c.ThinExp, len(in), tol, tol*math.Ldexp(1, c.ThinExp), msg, in, out)
		}
		if d > 0 {
			v.Class("thin_dropped_vertices")
		}
		if len(out) > 2 {
			v.Class("thin_kept_vertices")
		}
		v.NonTrivial = true
		return v
	}
	if c.Kind == "farback" {
		l := c.Lines[0]
		in := make(geom.LineString, len(l))
		for i, q := range l {
			in[i] = geom.Point{X: float64(q[0]) * sc, Y: float64(q[1]) * sc}
		}
		orig := append(geom.LineString{}, in...)
		var outL geom.LineString
		var outP geom.Polygon
		if p := vkit.Catch(func() {
			outL = in.Simplify(tol * sc).(geom.LineString)
			outP = geom.Polygon{geom.Path(append(geom.LineString{}, in...))}.Simplify(tol * sc).(geom.Polygon)
		}); p != "" {
			return v.Fail("Simplify panicked on a line that runs far away and comes back (scale 2^%d): %s", c.ScaleExp, p)
		}
		if !reflect.DeepEqual(append(geom.LineString{}, in...), orig) {
			return v.Fail("input line was modified")
		}
		unscaled := scalePath(geom.Path(in), inv)
		d, msg := checkCurve(unscaled, scalePath(geom.Path(outL), inv), tol)
		if msg != "" {
			return v.Fail("line that runs far away and comes back, times 2^%d (tol %v before scaling): %s; input (unscaled) %v output (unscaled) %v", c.ScaleExp, tol, msg, unscaled, scalePath(geom.Path(outL), inv))
		}
		if d > 0 {
			v.Class("farback_dropped_vertices")
		}
		if c.ScaleExp != 0 {
			v.Class("farback_scaled_beyond_2^440")
		}
		v.NonTrivial = true
		// the same vertices as the one ring of a polygon: the ring may be rotated or closed by the code, so only the
		// vertices that were dropped are judged - each within the tolerance of SOME segment between kept vertices is
		// more than the property asks; what it asks is that a dropped vertex is near the output ring
		if len(outP) == 1 {
			ring := scalePath(outP[0], inv)
			maxabs := 0.0
			for _, q := range unscaled {
				maxabs = math.Max(maxabs, math.Max(math.Abs(q.X), math.Abs(q.Y)))
			}
			for _, q := range unscaled {
				best := math.Inf(1)
				for i := 0; i < len(ring); i++ {
					a, b := ring[i], ring[(i+1)%len(ring)]
					best = math.Min(best, vkit.DistPtSeg(vkit.MkP(q.X, q.Y), vkit.MkP(a.X, a.Y), vkit.MkP(b.X, b.Y)))
				}
				if len(ring) > 0 && best > tol*(1+1e-9)+1e-12+16*maxabs*0x1p-52 {
					return v.Fail("ring that runs far away and comes back, times 2^%d (tol %v before scaling): vertex %v is %v from the simplified ring %v", c.ScaleExp, tol, q, best, ring)
				}
			}
		}
		return v
	}
	if c.Kind == "flatpoke" {
		l := c.Lines[0]
		if !vkit.ExactSimple(l) {
			v.Class("flatpoke_not_simple_after_rounding_skipped")
			return v
		}
		in := geom.LineString(toPath(l))
		orig := append(geom.LineString{}, in...)
		out := in.Simplify(tol).(geom.LineString)
		if !reflect.DeepEqual(append(geom.LineString{}, in...), orig) {
			return v.Fail("input line was modified")
		}
		if _, msg := checkCurve(geom.Path(in), geom.Path(out), tol); msg != "" {
			return v.Fail("flat poke line (%d vertices, tol %v): %s; output %v", len(in), tol, msg, out)
		}
		v.NonTrivial = true
		if len(out) < len(in) {
			v.Class("flatpoke_dropped_vertices")
		}
		op := make([]vkit.P2, len(out))
		for i, q := range out {
			op[i] = vkit.MkP(q.X, q.Y)
		}
		for i := 0; i+1 < len(op); i++ {
			for j := i + 2; j+1 < len(op); j++ {
				if _, proper := vkit.ExactSegsMeet(op[i], op[i+1], op[j], op[j+1]); proper {
					return v.Fail("the input line is simple (decided exactly) but output segments %d and %d cross (decided exactly; tol %v): input %v output %v", i, j, tol, in, out)
				}
			}
		}
		return v
	}
	if c.Kind == "thinwalk" {
		l := c.Lines[0]
		f, fi := math.Ldexp(1, -c.ThinExp), math.Ldexp(1, c.ThinExp)
		in := make(geom.LineString, len(l))
		for i, q := range l {
			y := float64(q[1]) * f
			if (y * fi) != float64(q[1]) {
				v.Class("thinwalk_not_exact_skipped")
				return v
			}
			in[i] = geom.Point{X: float64(q[0]), Y: y}
		}
		orig := append(geom.LineString{}, in...)
		out := in.Simplify(tol).(geom.LineString)
		if !reflect.DeepEqual(append(geom.LineString{}, in...), orig) {
			return v.Fail("input line was modified")
		}
		d, msg := checkCurve(geom.Path(in), geom.Path(out), tol)
		if msg != "" {
			return v.Fail("line with y-coordinates multiplied by 2^-%d (%d vertices, tol %v): %s; output %v", c.ThinExp, len(in), tol, msg, out)
		}
		if d > 0 {
			v.Class("thinwalk_dropped_vertices")
		}
		if len(l) >= 3 && isSimple(l, 1e-6) {
			v.Class("thinwalk_input_simple")
			v.NonTrivial = true
			back := make(geom.Path, len(out))
			for i, q := range out {
				back[i] = geom.Point{X: q.X, Y: q.Y * fi}
			}
			if a, b, bad := crossing(back, 1e-9); bad {
				return v.Fail("input line is simple but, with its y-coordinates multiplied by 2^-%d, output segments %d and %d cross (tol %v): output with y multiplied by 2^%d again = %v", c.ThinExp, a, b, tol, c.ThinExp, back)
			}
		}
		return v
	}
	if c.Kind == "batch" {
		for _, l := range c.Lines {
			sub := run(Case{Kind: "line", Lines: [][]vkit.P2{l}, Tol: c.Tol, Style: "box", noSweep: true})
			if sub.Bad {
				sub.Msg = "batch member " + sub.Msg
				return sub
			}
			if sub.NonTrivial {
				v.NonTrivial = true
			}
			for _, k := range sub.Classes {
				if k == "input_simple" || k == "dropped_vertices" {
					v.Class("batch_member_" + k)
				}
			}
		}
		return v
	}
	switch c.Kind {
	case "line", "multiline":
		var ml, mlS geom.MultiLineString // unscaled (for the oracle) and scaled (what Simplify sees)
		for _, l := range c.Lines {
			ml = append(ml, geom.LineString(toPath(l)))
			mlS = append(mlS, geom.LineString(scalePath(toPath(l), sc)))
		}
		orig := make(geom.MultiLineString, len(mlS))
		for i := range mlS {
			orig[i] = append(geom.LineString(nil), mlS[i]...)
		}
		var outs []geom.LineString
		if c.Kind == "line" {
			v.Class("style_" + c.Style)
			outs = []geom.LineString{mlS[0].Simplify(tol * sc).(geom.LineString)}
		} else {
			res := mlS.Simplify(tol * sc).(geom.MultiLineString)
			if len(res) != len(mlS) {
				return v.Fail("MultiLineString.Simplify returned %d members for %d", len(res), len(mlS))
			}
			for i := range mlS {
				single := mlS[i].Simplify(tol * sc).(geom.LineString)
				if !reflect.DeepEqual(append(geom.LineString{}, res[i]...), append(geom.LineString{}, single...)) {
					return v.Fail("member %d of MultiLineString.Simplify differs from simplifying the member alone: %v vs %v", i, res[i], single)
				}
			}
			outs = res
		}
		for i := range outs {
			outs[i] = geom.LineString(scalePath(geom.Path(outs[i]), inv))
		}
		for i := range ml {
			if !reflect.DeepEqual(append(geom.LineString{}, mlS[i]...), append(geom.LineString{}, orig[i]...)) {
				return v.Fail("input line %d was modified", i)
			}
			if len(ml[i]) > 100 {
				v.Class("long_input")
			}
			d, msg := checkCurve(geom.Path(ml[i]), geom.Path(outs[i]), tol)
			if msg != "" {
				return v.Fail("line %d (%d vertices, tol %v): %s; output %v", i, len(ml[i]), tol, msg, outs[i])
			}
			if d > 0 {
				v.NonTrivial = true
				v.Class("dropped_vertices")
			}
			if len(ml[i]) <= 2 {
				v.Class("short_input")
			}
			if len(c.Lines[i]) >= 3 && isSimple(c.Lines[i], 1e-6) {
				v.Class("input_simple")
				if a, b, bad := crossing(geom.Path(outs[i]), 1e-9); bad {
					return v.Fail("input line %d is simple but output segments %d and %d cross (tol %v, scale 2^%d): output %v", i, a, b, tol, c.ScaleExp, outs[i])
				}
				// scale sweep (simplicity and end points only): the same line and tolerance multiplied exactly by 2^k for every
				// second k in -60..60, so that a threshold that only bites at one coordinate magnitude is met by every line
				if len(c.Lines[i]) <= 60 && !math.IsInf(tol, 0) && !c.noSweep {
					for k := -60 + ((c.ScaleExp%2)+2)%2; k <= 60; k += 2 {
						f, fi := math.Ldexp(1, k), math.Ldexp(1, -k)
						ok := (tol*f)*fi == tol
						for _, q := range ml[i] {
							if (q.X*f)*fi != q.X || (q.Y*f)*fi != q.Y || (q.X != 0 && math.Abs(q.X*f) < 1e-290) || (q.Y != 0 && math.Abs(q.Y*f) < 1e-290) {
								ok = false
							}
						}
						if !ok {
							continue
						}
						o := geom.Path(geom.LineString(scalePath(geom.Path(ml[i]), f)).Simplify(tol * f).(geom.LineString))
						o = scalePath(o, fi)
						if len(o) < 2 || o[0] != ml[i][0] || o[len(o)-1] != ml[i][len(ml[i])-1] {
							return v.Fail("line %d multiplied by 2^%d (tol %v): first/last vertex not kept: output %v", i, k, tol, o)
						}
						if a, b, bad := crossing(o, 1e-9); bad {
							return v.Fail("input line %d is simple but, multiplied by 2^%d, output segments %d and %d cross (tol %v at unit scale): output/2^%d = %v", i, k, a, b, tol, k, o)
						}
					}
					v.Class("scale_sweep")
				}
			}
		}
	case "polygon", "multipolygon":
		var mp, mpS geom.MultiPolygon
		for _, rings := range c.Polys {
			var pg, pgS geom.Polygon
			for _, r := range rings {
				pg = append(pg, toPath(r))
				pgS = append(pgS, scalePath(toPath(r), sc))
			}
			mp = append(mp, pg)
			mpS = append(mpS, pgS)
		}
		cp, _ := vkit.FromGeom(mpS)
		if len(mpS) == 0 {
			cp = vkit.GJ{T: "MultiPolygon"}
		}
		cp = cloneGJ(cp)
		var outs geom.MultiPolygon
		if c.Kind == "polygon" {
			outs = geom.MultiPolygon{mpS[0].Simplify(tol * sc).(geom.Polygon)}
		} else {
			outs = mpS.Simplify(tol * sc).(geom.MultiPolygon)
			if len(outs) != len(mpS) {
				return v.Fail("MultiPolygon.Simplify returned %d members for %d", len(outs), len(mpS))
			}
			for i := range mpS {
				single := mpS[i].Simplify(tol * sc).(geom.Polygon)
				a, _ := vkit.FromGeom(outs[i])
				b, _ := vkit.FromGeom(single)
				if !a.Equal(b, true) {
					return v.Fail("member %d of MultiPolygon.Simplify differs from simplifying the member alone", i)
				}
			}
		}
		if after, _ := vkit.FromGeom(mpS); len(mpS) > 0 && !after.Equal(cp, true) {
			return v.Fail("input polygon was modified")
		}
		for i := range outs {
			o := make(geom.Polygon, len(outs[i]))
			for j := range outs[i] {
				o[j] = scalePath(outs[i][j], inv)
			}
			outs[i] = o
		}
		for i := range mp {
			if len(outs[i]) != len(mp[i]) {
				return v.Fail("polygon %d: %d rings in, %d rings out", i, len(mp[i]), len(outs[i]))
			}
			for j := range mp[i] {
				d, msg := checkCurve(mp[i][j], outs[i][j], tol)
				if msg != "" {
					return v.Fail("polygon %d ring %d (%d vertices, tol %v): %s; output %v", i, j, len(mp[i][j]), tol, msg, outs[i][j])
				}
				if d > 0 {
					v.NonTrivial = true
					v.Class("dropped_vertices")
				}
			}
		}
	}
	return v
}

func TestProp(t *testing.T) {
	vkit.Main(t, vkit.Spec[Case]{
		ID: "C13",
		Rule: "rapid: 'thin' lines (1 case in 25: 3-12 vertices, x increasing integers, y = m*2^-k with |m| <= 8 and k in {60,...,1060}, tolerance 0 or a few halves of 2^-k; allowance a millionth of 2^-k instead of the one below) and 'poke' lines (1 line case in 6: a shallow bay of three vertices, a detour of 1-70 vertices (a quarter: up to 515, next to a multiple of 16/32/64/128) clear of it, a last segment entering the bay through its base; tolerance 1.05-3 times the bay's depth, so that the short cut across the bay is within tolerance but crossed by a segment that comes that many places later); batches of 120 lines in a 20x20 box with tolerance 1-10 (1 case in 8; 5-9 uniform random points, or 8-15 points grown one by one with every new segment clear of the line so far - simple, criss-crossing lines on which the scan overshoots and backs off; coordinates are a splitmix64 expansion of one drawn 64-bit value because rapid's own number generators favour small and boundary values), and line strings of 0-40 vertices (1 in 40: 200-600), in 1 case of 3 handed to Simplify multiplied exactly by 2^k (k in +-40 or +-300; coordinates and tolerance; the output is divided by 2^k again, so the oracle and its margins work at unit scale): simple by construction via self-avoiding growth (random walk, outward/inward spiral, zig-zag, hook that " +
			"curls back over its own chord), arbitrary random/lattice vertex sequences (duplicates, self-crossing), lengths 0,1,2 weighted; tolerance from " +
			"{0,1e-12,0.5,1,1e9,+Inf} or uniform; multi-line strings, polygons and multi-polygons (star polygons with subdivided edges, random rings). Oracle: " +
			"termination (watchdog), existence of an increasing index map showing the output is a subsequence keeping first and last vertex with every dropped " +
			"vertex within tol*(1+1e-9) + 16 ulps of the largest coordinate of its replacing segment (dynamic programme, so duplicate vertices cannot confuse it), input unchanged, members simplified " +
			"independently, and - when the input is simple by an independent O(n^2) test with margin 1e-6 - no two non-adjacent output segments properly cross (orientation margin 1e-9); for simple lines of <= 60 vertices that last test and the end points are repeated with the line multiplied exactly by 2^k for every second k in -60..60 (scale sweep). " +
			"Non-trivial = at least one vertex dropped. Distinct by case hash." +
			" Round 9: 'weave' lines (1 in 4 of the line cases that are not poke lines: a comb of 0-18 tall spikes, a vertex S, a tail of 5-18 vertices inside a band of 0.3-1.1 tolerances under the spike tips)." +
			" Round 10: poke detours of 512, 1024 and 2048 vertices less 0-4; in half of the poke lines one or two more vertices follow the segment that enters the bay." +
			" Round 13: kind farback (1 in 20): a line that runs 2^20-2^60 units away and returns across its own direction to within a few units of its start, half of them multiplied exactly by 2^+-(440..560); judged as a line and as the ring of a polygon.",
		Assumptions:  []string{"termination is decided by a 20 s watchdog on calls that normally take microseconds, confirmed by a fresh-process replay", "rings of one polygon are not claimed independent (the code passes sibling rings as obstacles)"},
		Gen:          gen,
		Run:          run,
		Guard:        true,
		GuardTimeout: 20e9,
	})
}
