#!/bin/bash
# Offline setup: pre-build every property's test binary so the first check does not pay for compiling dependencies.
cd "$(dirname "$0")"
export GOFLAGS=-mod=mod GOPROXY=off GOSUMDB=off GOTOOLCHAIN=local
mkdir -p .bin evidence/parts evidence/replay
for d in props/c[0-9][0-9]/; do
  id=$(basename $d)
  go test -c -tags verif -vet=off -o .bin/$id.test ./props/$id || exit 1
done
echo setup ok
