package vkit

import (
	"bytes"
	"encoding/binary"
	"math"
)

// refWriter is an independent serializer of the OGC simple-features WKB layout.
type refWriter struct {
	buf    bytes.Buffer
	orders []bool
	k      int
	// offsets of interesting fields, for structured mutation
	counts, types, flags []int
	countBE              []bool
}

func (w *refWriter) next() binary.ByteOrder {
	o := w.orders[w.k%len(w.orders)]
	w.k++
	if o {
		return binary.BigEndian
	}
	return binary.LittleEndian
}
func (w *refWriter) u32(bo binary.ByteOrder, v uint32) {
	var b [4]byte
	bo.PutUint32(b[:], v)
	w.buf.Write(b[:])
}
func (w *refWriter) f64(bo binary.ByteOrder, v F) {
	var b [8]byte
	bo.PutUint64(b[:], math.Float64bits(float64(v)))
	w.buf.Write(b[:])
}
func (w *refWriter) header(code uint32) binary.ByteOrder {
	bo := w.next()
	w.flags = append(w.flags, w.buf.Len())
	w.types = append(w.types, w.buf.Len()+1)
	if bo == binary.BigEndian {
		w.buf.WriteByte(0)
	} else {
		w.buf.WriteByte(1)
	}
	w.u32(bo, code)
	return bo
}
func (w *refWriter) count(bo binary.ByteOrder, n int) {
	w.counts = append(w.counts, w.buf.Len())
	w.countBE = append(w.countBE, bo == binary.BigEndian)
	w.u32(bo, uint32(n))
}
func (w *refWriter) pts(bo binary.ByteOrder, p []P2) {
	w.count(bo, len(p))
	for _, q := range p {
		w.f64(bo, q[0])
		w.f64(bo, q[1])
	}
}
func (w *refWriter) geom(g GJ) {
	switch g.T {
	case "Point":
		bo := w.header(1)
		w.f64(bo, g.Pts[0][0])
		w.f64(bo, g.Pts[0][1])
	case "LineString":
		bo := w.header(2)
		w.pts(bo, g.Pts)
	case "Polygon":
		bo := w.header(3)
		w.count(bo, len(g.Rings))
		for _, r := range g.Rings {
			w.pts(bo, r)
		}
	case "MultiPoint":
		bo := w.header(4)
		w.count(bo, len(g.Pts))
		for _, p := range g.Pts {
			w.geom(GJ{T: "Point", Pts: []P2{p}})
		}
	case "MultiLineString":
		bo := w.header(5)
		w.count(bo, len(g.Rings))
		for _, r := range g.Rings {
			w.geom(GJ{T: "LineString", Pts: r})
		}
	case "MultiPolygon":
		bo := w.header(6)
		w.count(bo, len(g.Polys))
		for _, p := range g.Polys {
			w.geom(GJ{T: "Polygon", Rings: p})
		}
	case "GeometryCollection":
		bo := w.header(7)
		w.count(bo, len(g.Geoms))
		for _, m := range g.Geoms {
			w.geom(m)
		}
	default:
		panic("ref: " + g.T)
	}
}

// RefWKB serialises g with the given per-element orders.
func RefWKB(g GJ, orders []bool) []byte {
	w := &refWriter{orders: orders}
	w.geom(g)
	return w.buf.Bytes()
}

// WKBElements counts the WKB elements (headers) of g.
func WKBElements(g GJ) int {
	w := &refWriter{orders: []bool{false}}
	w.geom(g)
	return w.k
}

// WKBLayout is a reference encoding with the offsets of its count fields, type codes and byte-order flags.
type WKBLayout struct {
	Data                 []byte
	Counts, Types, Flags []int
	CountBE              []bool // byte order (true = XDR) of each count field
}

// RefWKBLayout serialises g and reports where the structural fields are.
func RefWKBLayout(g GJ, orders []bool) WKBLayout {
	w := &refWriter{orders: orders}
	w.geom(g)
	return WKBLayout{Data: w.buf.Bytes(), Counts: w.counts, Types: w.types, Flags: w.flags, CountBE: w.countBE}
}
