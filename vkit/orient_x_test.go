package vkit

import (
	"math"
	"math/rand"
	"testing"
)

func TestOrientSignAgainstExact(t *testing.T) {
	r := rand.New(rand.NewSource(1))
	pick := func() float64 {
		switch r.Intn(8) {
		case 0:
			return float64(r.Intn(9) - 4)
		case 1:
			return float64(r.Intn(41)-20) / 4
		case 2:
			return math.Ldexp(float64(r.Intn(9)-4), r.Intn(2100)-1074)
		case 3:
			return math.Float64frombits(r.Uint64()&^(0x7ff<<52) | uint64(r.Intn(2046)+1)<<52)
		case 4:
			return 0
		case 5:
			return math.Copysign(0, -1)
		case 6:
			return r.NormFloat64()
		}
		return float64(r.Intn(3)) * 0x1p-1074
	}
	n := 0
	for i := 0; i < 300000; i++ {
		a, b, c := MkP(pick(), pick()), MkP(pick(), pick()), MkP(pick(), pick())
		if r.Intn(3) == 0 { // collinear on purpose
			k := float64(r.Intn(7) - 3)
			c = MkP(float64(a[0])+k*(float64(b[0])-float64(a[0])), float64(a[1])+k*(float64(b[1])-float64(a[1])))
		}
		bad := false
		for _, p := range []P2{a, b, c} {
			if math.IsNaN(float64(p[0])) || math.IsNaN(float64(p[1])) || math.IsInf(float64(p[0]), 0) || math.IsInf(float64(p[1]), 0) {
				bad = true
			}
		}
		if bad {
			continue
		}
		n++
		if g, w := OrientSign(a, b, c), ExactOrient(a, b, c); g != w {
			t.Fatalf("OrientSign(%v, %v, %v) = %d, exact %d", a, b, c, g, w)
		}
	}
	t.Logf("%d triples", n)
}
