package vkit

import (
	"math"

	"pgregory.net/rapid"
)

// CoordAnyBits draws arbitrary 64-bit patterns, biased to special values.
func CoordAnyBits() *rapid.Generator[float64] {
	special := []float64{0, math.Copysign(0, -1), 1, -1, math.Inf(1), math.Inf(-1), math.NaN(),
		math.Float64frombits(0x7ff8000000000001), math.Float64frombits(0xfff0000000000001), // NaN payloads
		math.Float64frombits(0x7ff8000000000000), math.Float64frombits(0xfff8000000000000), // the canonical quiet NaNs other writers use (POINT EMPTY)
		math.Float64frombits(0x7ff8000000000000), math.Float64frombits(0x7ff8000000000000), math.Float64frombits(0x7ff8000000000000), // (weighted: a point is "empty" to them only when BOTH ordinates are this one)
		math.SmallestNonzeroFloat64, -math.SmallestNonzeroFloat64, math.MaxFloat64, -math.MaxFloat64,
		math.Float64frombits(0x000fffffffffffff), 0.1, 1e300, 1e-300, 123456.789}
	return rapid.OneOf(
		rapid.Map(rapid.Uint64(), math.Float64frombits),
		rapid.SampledFrom(special),
		rapid.Float64(),
	)
}

// CoordFinite draws finite float64s from bit patterns, specials and plain decimals.
func CoordFinite() *rapid.Generator[float64] {
	special := []float64{0, math.Copysign(0, -1), 1, -1, math.SmallestNonzeroFloat64, -math.SmallestNonzeroFloat64,
		math.MaxFloat64, -math.MaxFloat64, math.Float64frombits(0x000fffffffffffff), 0.1, 0.3, 1e300, 1e-300, 1e21, 1e-7,
		123456.789, 5e-324, 1.7976931348623157e308, 0.1 + 0.2, 1.0 / 3.0, 100, 1e20, 1e22}
	return rapid.OneOf(
		rapid.Map(rapid.Uint64(), func(u uint64) float64 {
			f := math.Float64frombits(u)
			if math.IsNaN(f) || math.IsInf(f, 0) {
				f = math.Float64frombits(u &^ (1 << 62)) // clear one exponent bit: finite
			}
			return f
		}),
		rapid.SampledFrom(special),
		rapid.Map(rapid.IntRange(-1000000, 1000000), func(i int) float64 { return float64(i) / 1000 }),
		rapid.Float64Range(-1e6, 1e6),
		CoordBoundary(),
	)
}

// CoordBoundary draws finite values at and next to the thresholds where number formatters and integer conversions
// change behaviour: +-2^k (k = -60..1023) and its float neighbours, +-(2^k +- 1) while exact, m*10^e for small
// integer m (whole values of every magnitude, including 2^53..1e22) and their float neighbours.
func CoordBoundary() *rapid.Generator[float64] {
	return rapid.Custom(func(t *rapid.T) float64 {
		var v float64
		if rapid.Bool().Draw(t, "pow2") {
			k := rapid.IntRange(-60, 1023).Draw(t, "k")
			v = math.Ldexp(1, k)
			if k <= 62 && k >= 1 {
				v += float64(rapid.IntRange(-1, 1).Draw(t, "d"))
			}
		} else {
			m := rapid.IntRange(1, 9999).Draw(t, "m")
			e := rapid.IntRange(-25, 40).Draw(t, "e")
			v = float64(m) * math.Pow(10, float64(e))
			if e >= 0 && e <= 22 {
				v = math.Trunc(v) // a whole number
			}
		}
		switch rapid.IntRange(0, 5).Draw(t, "nbr") {
		case 0:
			v = math.Nextafter(v, math.Inf(1))
		case 1:
			v = math.Nextafter(v, 0)
		}
		if rapid.Bool().Draw(t, "neg") {
			v = -v
		}
		return v
	})
}

// GeomOpts steers GenGJ.
type GeomOpts struct {
	Types      []string // allowed types (default: the seven encodable ones)
	MaxDepth   int      // collection nesting allowed below this node
	MinMembers int      // members per multi-geometry / rings per polygon / polygons per multi-polygon
	MaxMembers int
	MinPts     int // vertices per member (lines, rings, multipoints)
	MaxPts     int
	// FirstNonEmpty forces >=1 member and >=1 vertex in the first member (GeoJSON precondition)
	FirstNonEmpty bool
	Coord         *rapid.Generator[float64]
	// ExactGrid: the caller relies on every coordinate being a value of Coord (an exact grid); no vertex is nudged by ulps
	ExactGrid bool
}

var AllSeven = []string{"Point", "MultiPoint", "LineString", "MultiLineString", "Polygon", "MultiPolygon", "GeometryCollection"}

func (o GeomOpts) pts(t *rapid.T, min int) []P2 {
	if min < o.MinPts {
		min = o.MinPts
	}
	n := rapid.IntRange(min, o.MaxPts).Draw(t, "npts")
	out := make([]P2, n)
	for i := range out {
		out[i] = MkP(o.Coord.Draw(t, "x"), o.Coord.Draw(t, "y"))
	}
	// a vertex whose two coordinates are the same drawn value (both the same NaN pattern, both -0, both MaxFloat, ...)
	if n >= 1 && rapid.IntRange(0, 11).Draw(t, "twincoord") == 5 {
		v := o.Coord.Draw(t, "twinv")
		out[rapid.IntRange(0, n-1).Draw(t, "twinat")] = MkP(v, v)
	}
	// an axis-parallel rectangle as a closed 5-vertex array, first edge along y or along x: vertices share coordinates bit
	// for bit with their neighbours
	if n >= 5 && !o.ExactGrid && rapid.IntRange(0, 9).Draw(t, "rect") == 4 {
		x0, y0, x1, y1 := float64(out[0][0]), float64(out[0][1]), float64(out[2][0]), float64(out[2][1])
		if rapid.Bool().Draw(t, "rectsmall") {
			// a grid cell in longitude/latitude range, often with a side on zero
			small := rapid.SampledFrom([]float64{0, 0, 0, 1, -1, 2, 5, -3, 10, 45, -45, 90, -90, 0.5, -0.25})
			x0, y0, x1, y1 = small.Draw(t, "rx0"), small.Draw(t, "ry0"), small.Draw(t, "rx1"), small.Draw(t, "ry1")
		}
		if rapid.Bool().Draw(t, "rectyfirst") {
			out = []P2{MkP(x0, y0), MkP(x0, y1), MkP(x1, y1), MkP(x1, y0), MkP(x0, y0)}
		} else {
			out = []P2{MkP(x0, y0), MkP(x1, y0), MkP(x1, y1), MkP(x0, y1), MkP(x0, y0)}
		}
		// a zero has a sign, and each vertex its own: the corners (and the closing vertex) that share a zero coordinate need
		// not share its sign
		for i := range out {
			for k := 0; k < 2; k++ {
				if float64(out[i][k]) == 0 && rapid.Bool().Draw(t, "rectzerosign") {
					out[i][k] = F(math.Copysign(0, -1))
				}
			}
		}
		return out
	}
	// closed and NEARLY closed / nearly repeated vertices: one vertex becomes a copy of another (the last of the first:
	// a closed ring), or a copy moved by one or a few hundred ulps, or by the sign of a zero
	if n >= 2 && !o.ExactGrid && rapid.IntRange(0, 5).Draw(t, "neardup") == 3 {
		src, dst := 0, n-1
		if rapid.IntRange(0, 2).Draw(t, "anypair") == 1 {
			src, dst = rapid.IntRange(0, n-1).Draw(t, "dupsrc"), rapid.IntRange(0, n-1).Draw(t, "dupdst")
		}
		if src != dst {
			nudge := func(v float64) float64 {
				fin := func(r float64) float64 { // never turn a finite coordinate into an infinite one
					if math.IsInf(r, 0) || math.IsNaN(r) {
						return v
					}
					return r
				}
				switch rapid.IntRange(0, 4).Draw(t, "nudge") {
				case 1:
					return fin(math.Nextafter(v, math.Inf(1)))
				case 2:
					return fin(math.Nextafter(v, math.Inf(-1)))
				case 3:
					if v != 0 && !math.IsInf(v, 0) && !math.IsNaN(v) {
						return fin(v * (1 + float64(rapid.IntRange(-400, 400).Draw(t, "ulps"))*0x1p-52))
					}
				case 4:
					if v == 0 {
						return math.Copysign(0, -1)
					}
				}
				return v
			}
			out[dst] = MkP(nudge(float64(out[src][0])), nudge(float64(out[src][1])))
		}
	}
	return out
}

func (o GeomOpts) nmem(t *rapid.T, first bool) int {
	min := o.MinMembers
	if first && min < 1 {
		min = 1
	}
	return rapid.IntRange(min, o.MaxMembers).Draw(t, "nmem")
}

// GenGJ draws a geometry.
func GenGJ(t *rapid.T, o GeomOpts) GJ {
	types := o.Types
	if len(types) == 0 {
		types = AllSeven
	}
	if o.MaxDepth <= 0 {
		var tt []string
		for _, s := range types {
			if s != "GeometryCollection" {
				tt = append(tt, s)
			}
		}
		if len(tt) == 0 {
			return GJ{T: "GeometryCollection"} // only collections allowed but no depth left: an empty one
		}
		types = tt
	}
	typ := rapid.SampledFrom(types).Draw(t, "type")
	fne := o.FirstNonEmpty
	min1 := 0
	if fne {
		min1 = 1
	}
	g := GJ{T: typ}
	switch typ {
	case "Point":
		g.Pts = []P2{MkP(o.Coord.Draw(t, "x"), o.Coord.Draw(t, "y"))}
	case "MultiPoint", "LineString":
		g.Pts = o.pts(t, min1)
	case "MultiLineString", "Polygon":
		n := o.nmem(t, fne)
		g.Rings = make([][]P2, n)
		for i := range g.Rings {
			m := 0
			if i == 0 {
				m = min1
			}
			g.Rings[i] = o.pts(t, m)
		}
	case "MultiPolygon":
		n := o.nmem(t, fne)
		g.Polys = make([][][]P2, n)
		for i := range g.Polys {
			nr := o.nmem(t, fne && i == 0)
			g.Polys[i] = make([][]P2, nr)
			for j := range g.Polys[i] {
				m := 0
				if i == 0 && j == 0 {
					m = min1
				}
				g.Polys[i][j] = o.pts(t, m)
			}
		}
	case "GeometryCollection":
		n := o.nmem(t, false)
		g.Geoms = make([]GJ, n)
		sub := o
		sub.MaxDepth = o.MaxDepth - 1
		for i := range g.Geoms {
			g.Geoms[i] = GenGJ(t, sub)
		}
	case "Bounds":
		// a proper box: Min <= Max on both axes
		x1, y1, x2, y2 := o.Coord.Draw(t, "x"), o.Coord.Draw(t, "y"), o.Coord.Draw(t, "x"), o.Coord.Draw(t, "y")
		g.Pts = []P2{MkP(math.Min(x1, x2), math.Min(y1, y2)), MkP(math.Max(x1, x2), math.Max(y1, y2))}
	}
	return g
}
