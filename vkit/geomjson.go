package vkit

import (
	"fmt"
	"math"
	"reflect"
	"strconv"

	"github.com/ctessum/geom"
)

// F is a float64 that survives JSON exactly (NaN payloads and infinities as bit strings).
type F float64

func (f F) MarshalJSON() ([]byte, error) {
	v := float64(f)
	if math.IsNaN(v) || math.IsInf(v, 0) || (v == 0 && math.Signbit(v)) {
		return []byte(fmt.Sprintf("\"0x%016x\"", math.Float64bits(v))), nil
	}
	return strconv.AppendFloat(nil, v, 'g', -1, 64), nil
}

func (f *F) UnmarshalJSON(b []byte) error {
	if len(b) > 0 && b[0] == '"' {
		s, err := strconv.Unquote(string(b))
		if err != nil {
			return err
		}
		u, err := strconv.ParseUint(s, 0, 64)
		if err != nil {
			return err
		}
		*f = F(math.Float64frombits(u))
		return nil
	}
	v, err := strconv.ParseFloat(string(b), 64)
	if err != nil {
		return err
	}
	*f = F(v)
	return nil
}

// P2 is a JSON-safe point.
type P2 [2]F

func (p P2) Pt() geom.Point { return geom.Point{X: float64(p[0]), Y: float64(p[1])} }

// MkP builds a P2.
func MkP(x, y float64) P2 { return P2{F(x), F(y)} }

// GJ is a JSON-safe geometry of any of the eight types.
type GJ struct {
	T     string   `json:"t"` // Point MultiPoint LineString MultiLineString Polygon MultiPolygon GeometryCollection Bounds
	Pts   []P2     `json:"pts,omitempty"`
	Rings [][]P2   `json:"rings,omitempty"`
	Polys [][][]P2 `json:"polys,omitempty"`
	Geoms []GJ     `json:"geoms,omitempty"`
}

func toPts(p []P2) []geom.Point {
	out := make([]geom.Point, len(p))
	for i, q := range p {
		out[i] = q.Pt()
	}
	return out
}
func toPaths(r [][]P2) []geom.Path {
	out := make([]geom.Path, len(r))
	for i, q := range r {
		out[i] = toPts(q)
	}
	return out
}

// Geom converts to the geom type. A Bounds uses Pts[0]=Min, Pts[1]=Max.
func (g GJ) Geom() geom.Geom {
	switch g.T {
	case "Point":
		return g.Pts[0].Pt()
	case "MultiPoint":
		return geom.MultiPoint(toPts(g.Pts))
	case "LineString":
		return geom.LineString(toPts(g.Pts))
	case "MultiLineString":
		out := make(geom.MultiLineString, len(g.Rings))
		for i, r := range g.Rings {
			out[i] = geom.LineString(toPts(r))
		}
		return out
	case "Polygon":
		return geom.Polygon(toPaths(g.Rings))
	case "MultiPolygon":
		out := make(geom.MultiPolygon, len(g.Polys))
		for i, p := range g.Polys {
			out[i] = geom.Polygon(toPaths(p))
		}
		return out
	case "GeometryCollection":
		out := make(geom.GeometryCollection, len(g.Geoms))
		for i, m := range g.Geoms {
			out[i] = m.Geom()
		}
		return out
	case "Bounds":
		return &geom.Bounds{Min: g.Pts[0].Pt(), Max: g.Pts[1].Pt()}
	}
	panic("vkit: unknown GJ type " + g.T)
}

func fromPts(p []geom.Point) []P2 {
	out := make([]P2, len(p))
	for i, q := range p {
		out[i] = MkP(q.X, q.Y)
	}
	return out
}
func fromPaths(r []geom.Path) [][]P2 {
	out := make([][]P2, len(r))
	for i, q := range r {
		out[i] = fromPts(q)
	}
	return out
}

// FromGeom converts a geom value (value types or *Bounds) to GJ; ok=false for anything else.
func FromGeom(g geom.Geom) (GJ, bool) {
	switch v := g.(type) {
	case geom.Point:
		return GJ{T: "Point", Pts: []P2{MkP(v.X, v.Y)}}, true
	case geom.MultiPoint:
		return GJ{T: "MultiPoint", Pts: fromPts(v)}, true
	case geom.LineString:
		return GJ{T: "LineString", Pts: fromPts(v)}, true
	case geom.MultiLineString:
		o := GJ{T: "MultiLineString", Rings: make([][]P2, len(v))}
		for i, l := range v {
			o.Rings[i] = fromPts(l)
		}
		return o, true
	case geom.Polygon:
		return GJ{T: "Polygon", Rings: fromPaths(v)}, true
	case geom.MultiPolygon:
		o := GJ{T: "MultiPolygon", Polys: make([][][]P2, len(v))}
		for i, p := range v {
			o.Polys[i] = fromPaths(p)
		}
		return o, true
	case geom.GeometryCollection:
		o := GJ{T: "GeometryCollection", Geoms: make([]GJ, len(v))}
		for i, m := range v {
			mm, ok := FromGeom(m)
			if !ok {
				return GJ{}, false
			}
			o.Geoms[i] = mm
		}
		return o, true
	case *geom.Bounds:
		if v == nil {
			return GJ{}, false
		}
		return GJ{T: "Bounds", Pts: []P2{MkP(v.Min.X, v.Min.Y), MkP(v.Max.X, v.Max.Y)}}, true
	}
	return GJ{}, false
}

// Flatten is the reference vertex enumeration (own recursion, storage order).
func (g GJ) Flatten() []P2 {
	var out []P2
	switch g.T {
	case "Point", "MultiPoint", "LineString":
		out = append(out, g.Pts...)
	case "MultiLineString", "Polygon":
		for _, r := range g.Rings {
			out = append(out, r...)
		}
	case "MultiPolygon":
		for _, p := range g.Polys {
			for _, r := range p {
				out = append(out, r...)
			}
		}
	case "GeometryCollection":
		for _, m := range g.Geoms {
			out = append(out, m.Flatten()...)
		}
	case "Bounds":
		mn, mx := g.Pts[0], g.Pts[1]
		if mx[0] < mn[0] || mx[1] < mn[1] {
			return nil // a box that holds no point has no corners
		}
		out = []P2{mn, {mx[0], mn[1]}, mx, {mn[0], mx[1]}}
	}
	return out
}

// Depth is the collection nesting depth (0 for a non-collection).
func (g GJ) Depth() int {
	if g.T != "GeometryCollection" {
		return 0
	}
	d := 0
	for _, m := range g.Geoms {
		if x := m.Depth(); x > d {
			d = x
		}
	}
	return d + 1
}

// HasEmptyMember reports an empty ring / line / polygon / collection / multi-* anywhere.
func (g GJ) HasEmptyMember() bool {
	switch g.T {
	case "MultiPoint", "LineString":
		return len(g.Pts) == 0
	case "MultiLineString", "Polygon":
		if len(g.Rings) == 0 {
			return true
		}
		for _, r := range g.Rings {
			if len(r) == 0 {
				return true
			}
		}
	case "MultiPolygon":
		if len(g.Polys) == 0 {
			return true
		}
		for _, p := range g.Polys {
			if len(p) == 0 {
				return true
			}
			for _, r := range p {
				if len(r) == 0 {
					return true
				}
			}
		}
	case "GeometryCollection":
		if len(g.Geoms) == 0 {
			return true
		}
		for _, m := range g.Geoms {
			if m.HasEmptyMember() {
				return true
			}
		}
	}
	return false
}

func bitsEq(a, b F) bool { return math.Float64bits(float64(a)) == math.Float64bits(float64(b)) }
func numEq(a, b F) bool  { return a == b }

func ptsEq(a, b []P2, eq func(a, b F) bool) bool {
	if len(a) != len(b) {
		return false
	}
	for i := range a {
		if !eq(a[i][0], b[i][0]) || !eq(a[i][1], b[i][1]) {
			return false
		}
	}
	return true
}

// Equal compares type, nesting and coordinates (bit-wise when bits is true, float == otherwise);
// nil and empty slices are identified.
func (g GJ) Equal(h GJ, bits bool) bool {
	eq := numEq
	if bits {
		eq = bitsEq
	}
	if g.T != h.T {
		return false
	}
	if !ptsEq(g.Pts, h.Pts, eq) || len(g.Rings) != len(h.Rings) || len(g.Polys) != len(h.Polys) || len(g.Geoms) != len(h.Geoms) {
		return false
	}
	for i := range g.Rings {
		if !ptsEq(g.Rings[i], h.Rings[i], eq) {
			return false
		}
	}
	for i := range g.Polys {
		if len(g.Polys[i]) != len(h.Polys[i]) {
			return false
		}
		for j := range g.Polys[i] {
			if !ptsEq(g.Polys[i][j], h.Polys[i][j], eq) {
				return false
			}
		}
	}
	for i := range g.Geoms {
		if !g.Geoms[i].Equal(h.Geoms[i], bits) {
			return false
		}
	}
	return true
}

// NumVertices counts stored vertices.
func (g GJ) NumVertices() int { return len(g.Flatten()) }

// SharedGeom builds the geometry with ALL its point lists cut out of one flat array as consecutive two-index
// sub-slices (`flat[a:b]`, `flat[b:c]`, ...), the way a caller that decoded its coordinates into one buffer holds them:
// every list has spare capacity, and the element just past its end is the first vertex of the next list. The LISTS OF
// LISTS are held the same way: the ring lists of the polygons of a multi-polygon are windows of one []Path array (in
// storage order, in reverse order or rotated by one - chosen from the size of the geometry - so that the slots behind a
// member's window belong to a member that comes earlier or later), and every ring list, line list, polygon list and
// member list is followed by spare slots holding sentinels. It returns the geometry and a function that reports whether
// the flat array and the header arrays still hold what they were given - a library call that appends to (or writes
// into) a list it was given changes them. Point and *Bounds values carry no slice and are built as usual.

// sharedWindows places the lists as two-index windows of ONE array (storage order given by perm: list i is the perm[i]-th
// window), followed by as many sentinel slots as there are elements plus two, and returns the windows and a check that
// the whole array still holds the same slice headers (data pointer and length).
func sharedWindows[T any](lists [][]T, sentinel T, perm []int) ([][]T, func() string) {
	total := 0
	for _, l := range lists {
		total += len(l)
	}
	arr := make([]T, 0, 2*total+2)
	start := make([]int, len(lists))
	order := make([]int, len(lists)) // order[k] = which list is stored k-th
	for i, k := range perm {
		order[k] = i
	}
	for _, i := range order {
		start[i] = len(arr)
		arr = append(arr, lists[i]...)
	}
	for len(arr) < cap(arr) {
		arr = append(arr, sentinel)
	}
	out := make([][]T, len(lists))
	for i, l := range lists {
		out[i] = arr[start[i] : start[i]+len(l)]
	}
	type hdr struct {
		p uintptr
		n int
	}
	snap := func() []hdr {
		h := make([]hdr, len(arr))
		for i := range arr {
			v := reflect.ValueOf(arr[i])
			if v.IsValid() && v.Kind() == reflect.Slice {
				h[i] = hdr{v.Pointer(), v.Len()}
			} else if v.IsValid() {
				h[i] = hdr{1, 0}
			}
		}
		return h
	}
	orig := snap()
	return out, func() string {
		for i, h := range snap() {
			if h != orig[i] {
				return fmt.Sprintf("slot %d of the caller's array of %T (%d lists as windows of one array, %d slots) now holds another list (length %d, was %d)", i, arr, len(lists), len(arr), h.n, orig[i].n)
			}
		}
		return ""
	}
}

// storagePerm chooses the storage order of n lists from the size of the geometry: identity, reversed, or rotated by one.
func storagePerm(n, size int) []int {
	perm := make([]int, n)
	for i := range perm {
		switch size % 3 {
		case 1:
			perm[i] = n - 1 - i
		case 2:
			perm[i] = (i + 1) % n
		default:
			perm[i] = i
		}
	}
	return perm
}

func SharedGeom(g GJ) (geom.Geom, func() string) {
	// the point lists in the order in which the geometry is built
	var lists [][]geom.Point
	var collect func(g GJ)
	collect = func(g GJ) {
		switch g.T {
		case "MultiPoint", "LineString":
			lists = append(lists, toPts(g.Pts))
		case "MultiLineString", "Polygon":
			for _, r := range g.Rings {
				lists = append(lists, toPts(r))
			}
		case "MultiPolygon":
			for _, p := range g.Polys {
				for _, r := range p {
					lists = append(lists, toPts(r))
				}
			}
		case "GeometryCollection":
			for _, m := range g.Geoms {
				collect(m)
			}
		}
	}
	collect(g)
	// their places in the one array: in the order of use, reversed or rotated (a function of the sizes), and - for odd
	// totals - with a sentinel point between two lists, so that a list is not always followed by the list that is used
	// next (writing "the next list" behind a list is then not a no-op)
	total := 0
	for _, l := range lists {
		total += len(l)
	}
	perm := storagePerm(len(lists), total+len(lists))
	gaps := total%2 == 1
	off := make([]int, len(lists))
	var flat []geom.Point
	for _, li := range perm {
		off[li] = len(flat)
		flat = append(flat, lists[li]...)
		if gaps {
			flat = append(flat, geom.Point{X: 2345.5 + float64(li), Y: -7654.25})
		}
	}
	flat = append(flat, geom.Point{X: 12345.678, Y: -8765.4321}) // a sentinel after the last list
	orig := append([]geom.Point(nil), flat...)
	next := 0
	take := func(n int) []geom.Point {
		s := flat[off[next] : off[next]+n]
		next++
		return s
	}
	var checks []func() string
	sentinelPt := geom.Point{X: -4321.5, Y: 1234.25}
	var build func(g GJ) geom.Geom
	build = func(g GJ) geom.Geom {
		switch g.T {
		case "MultiPoint":
			return geom.MultiPoint(take(len(g.Pts)))
		case "LineString":
			return geom.LineString(take(len(g.Pts)))
		case "MultiLineString":
			out := make(geom.MultiLineString, len(g.Rings))
			for i, r := range g.Rings {
				out[i] = geom.LineString(take(len(r)))
			}
			w, chk := sharedWindows([][]geom.LineString{out}, geom.LineString{sentinelPt}, []int{0})
			checks = append(checks, chk)
			return geom.MultiLineString(w[0])
		case "Polygon":
			out := make(geom.Polygon, len(g.Rings))
			for i, r := range g.Rings {
				out[i] = take(len(r))
			}
			w, chk := sharedWindows([][]geom.Path{out}, geom.Path{sentinelPt}, []int{0})
			checks = append(checks, chk)
			return geom.Polygon(w[0])
		case "MultiPolygon":
			lists := make([][]geom.Path, len(g.Polys))
			for i, p := range g.Polys {
				lists[i] = make([]geom.Path, len(p))
				for j, r := range p {
					lists[i][j] = take(len(r))
				}
			}
			w, chk := sharedWindows(lists, geom.Path{sentinelPt}, storagePerm(len(lists), len(flat)))
			checks = append(checks, chk)
			out := make([]geom.Polygon, len(w))
			for i := range w {
				out[i] = geom.Polygon(w[i])
			}
			w2, chk2 := sharedWindows([][]geom.Polygon{out}, geom.Polygon{{sentinelPt}}, []int{0})
			checks = append(checks, chk2)
			return geom.MultiPolygon(w2[0])
		case "GeometryCollection":
			out := make([]geom.Geom, len(g.Geoms))
			for i, m := range g.Geoms {
				out[i] = build(m)
			}
			w, chk := sharedWindows([][]geom.Geom{out}, geom.Geom(nil), []int{0})
			checks = append(checks, chk)
			return geom.GeometryCollection(w[0])
		}
		return g.Geom()
	}
	gg := build(g)
	return gg, func() string {
		for i := range orig {
			if math.Float64bits(orig[i].X) != math.Float64bits(flat[i].X) || math.Float64bits(orig[i].Y) != math.Float64bits(flat[i].Y) {
				return fmt.Sprintf("element %d of the caller's coordinate array changed from %v to %v", i, orig[i], flat[i])
			}
		}
		for _, chk := range checks {
			if m := chk(); m != "" {
				return m
			}
		}
		return ""
	}
}

// WrapDeep wraps g in depth nested collections. pattern decides level by level (two bits each, cycled) what stands
// beside the nested collection: nothing, a point behind it, a point in front of it, or both. The points are fixed
// lattice points numbered by level, so two geometries wrapped with the same depth and pattern get the same wrapping.
func WrapDeep(g GJ, depth int, pattern uint64) GJ {
	inner := g
	for lvl := 0; lvl < depth; lvl++ {
		bits := (pattern >> uint(2*(lvl%32))) & 3
		gc := GJ{T: "GeometryCollection"}
		if bits&2 != 0 {
			gc.Geoms = append(gc.Geoms, GJ{T: "Point", Pts: []P2{MkP(float64(5000+lvl), float64(-7000-lvl))}})
		}
		gc.Geoms = append(gc.Geoms, inner)
		if bits&1 != 0 {
			gc.Geoms = append(gc.Geoms, GJ{T: "Point", Pts: []P2{MkP(float64(-6000-lvl), float64(8000+lvl))}})
		}
		inner = gc
	}
	return inner
}
