// Package vkit is the shared harness of the /verif property checks: case (de)serialisation,
// evidence counters, known-findings handling, corpus replay, watchdog.  See DESIGN.md 1.2-1.7.
package vkit

import (
	"encoding/json"
	"fmt"
	"hash/fnv"
	"os"
	"path/filepath"
	"runtime/debug"
	"sort"
	"strconv"
	"strings"
	"sync"
	"sync/atomic"
	"testing"
	"time"

	"pgregory.net/rapid"
)

// Verdict is what an oracle returns for one case.
type Verdict struct {
	Bad        bool     // the property is violated on this case
	Msg        string   // why
	NonTrivial bool     // the case is non-trivial by the property's stated rule
	Classes    []string // labels for the generator-distribution histogram
}

// Fail builds a failing verdict.
func (v Verdict) Fail(format string, a ...interface{}) Verdict {
	v.Bad = true
	v.Msg = fmt.Sprintf(format, a...)
	return v
}

// Class adds a histogram label.
func (v *Verdict) Class(s string) { v.Classes = append(v.Classes, s) }

// Spec describes one property check.
type Spec[C any] struct {
	ID          string
	Rule        string
	Assumptions []string
	Gen         func(t *rapid.T) C
	Run         func(c C) Verdict
	// Known maps the key of a `known:` line in KNOWN_FINDINGS.txt to the predicate that
	// recognises the cases it covers; such cases are excluded by construction (and counted).
	Known map[string]func(c C) bool
	// Extra runs deterministic enumerators (thorough or quick); it reports through ev.
	Extra func(ev *Ev[C], tier string)
	// Guard, when set, makes the harness write the current case to disk before every call
	// and abort the process (exit 86) when one call runs longer than GuardTimeout.
	Guard        bool
	GuardTimeout time.Duration
	// Finish runs just before the evidence part is written (e.g. to add notes).
	Finish func(ev *Ev[C])
	// Samples to keep (default 6)
	NSamples int
}

// Ev accumulates what a run covered.
type Ev[C any] struct {
	mu          sync.Mutex
	spec        *Spec[C]
	Evaluations int64
	hashes      map[uint64]struct{}
	Classes     map[string]int64
	first       []json.RawMessage
	small       []sampleEnt
	Excluded    int64
	Violations  []Violation
	KnownLines  []string
	Notes       map[string]interface{}
	Exhaustive  bool
	replayDir   string
	shard       int
	seed        uint64
	curFile     string
	curF        *os.File
	callStart   atomic.Int64
}

type sampleEnt struct {
	h uint64
	j json.RawMessage
}

// Violation is one failing case.
type Violation struct {
	Replay string `json:"replay"`
	Msg    string `json:"msg"`
}

type part struct {
	ID          string                 `json:"property_id"`
	Tier        string                 `json:"tier"`
	Seed        uint64                 `json:"seed"`
	Shard       int                    `json:"shard"`
	Evaluations int64                  `json:"evaluations"`
	Hashes      []string               `json:"hashes"`
	Classes     map[string]int64       `json:"classes"`
	Samples     []json.RawMessage      `json:"samples"`
	Excluded    int64                  `json:"excluded_known"`
	Violations  []Violation            `json:"violations"`
	KnownLines  []string               `json:"known_lines"`
	Notes       map[string]interface{} `json:"notes"`
	Rule        string                 `json:"rule"`
	Assumptions []string               `json:"assumptions"`
	Exhaustive  bool                   `json:"exhaustive"`
	WallS       float64                `json:"wall_s"`
	Completed   bool                   `json:"completed"`
}

// VerifDir is the root of the framework (env VERIF_DIR, default /verif).
func VerifDir() string {
	if d := os.Getenv("VERIF_DIR"); d != "" {
		return d
	}
	return "/verif"
}

// EvidenceDir is where evidence, parts and replay files go (env VERIF_EVIDENCE, default <verif>/evidence).
func EvidenceDir() string {
	if d := os.Getenv("VERIF_EVIDENCE"); d != "" {
		return d
	}
	return filepath.Join(VerifDir(), "evidence")
}

func envInt(k string, def int) int {
	if s := os.Getenv(k); s != "" {
		if n, err := strconv.Atoi(s); err == nil {
			return n
		}
	}
	return def
}

// Tier returns quick or thorough.
func Tier() string {
	if os.Getenv("VERIF_TIER") == "thorough" {
		return "thorough"
	}
	return "quick"
}

// Record counts one evaluated case (used by Main and by Extra enumerators).
func (e *Ev[C]) Record(c C, v Verdict) {
	e.mu.Lock()
	defer e.mu.Unlock()
	e.Evaluations++
	for _, k := range v.Classes {
		e.Classes[k]++
	}
	if v.NonTrivial {
		e.Classes["nontrivial"]++
		j, err := json.Marshal(c)
		if err != nil {
			j = []byte(fmt.Sprintf("%q", fmt.Sprintf("%+v", c)))
		}
		h := fnv.New64a()
		h.Write(j)
		hv := h.Sum64()
		if _, ok := e.hashes[hv]; !ok {
			e.hashes[hv] = struct{}{}
			n := e.spec.NSamples
			if n == 0 {
				n = 6
			}
			if len(j) < 20000 {
				if len(e.first) < n/2 {
					e.first = append(e.first, j)
				} else {
					e.small = append(e.small, sampleEnt{hv, j})
					if len(e.small) > 64 {
						e.trim(n - n/2)
					}
				}
			}
		}
	}
}

// Count bumps a histogram class without a case.
func (e *Ev[C]) Count(class string, n int64) {
	e.mu.Lock()
	e.Classes[class] += n
	e.mu.Unlock()
}

// AddEvaluations adds enumerated evaluations and distinct non-trivial cases identified by hash keys.
func (e *Ev[C]) AddEnumerated(n int64, nontrivialKeys []uint64) {
	e.mu.Lock()
	e.Evaluations += n
	for _, k := range nontrivialKeys {
		e.hashes[k] = struct{}{}
	}
	e.mu.Unlock()
}

// AddSample stores a sample verbatim.
func (e *Ev[C]) AddSample(v interface{}) {
	j, err := json.Marshal(v)
	if err != nil {
		return
	}
	e.mu.Lock()
	e.first = append(e.first, j)
	e.mu.Unlock()
}

func (e *Ev[C]) trim(n int) {
	sort.Slice(e.small, func(i, j int) bool { return e.small[i].h < e.small[j].h })
	if len(e.small) > n {
		e.small = e.small[:n]
	}
}

// Violate records a violation for case c, writing its replay file.
func (e *Ev[C]) Violate(c C, msg string, name string) string {
	path := filepath.Join(e.replayDir, name)
	writeJSON(path, c)
	e.mu.Lock()
	defer e.mu.Unlock()
	for i := range e.Violations {
		if e.Violations[i].Replay == path {
			e.Violations[i].Msg = msg
			return path
		}
	}
	e.Violations = append(e.Violations, Violation{path, msg})
	return path
}

// writeCurrent overwrites the current-case file cheaply (one open file, no rename).
func (e *Ev[C]) writeCurrent(c C) {
	j, err := json.Marshal(c)
	if err != nil {
		j = []byte(fmt.Sprintf("%q", fmt.Sprintf("%+v", c)))
	}
	if e.curF == nil {
		os.MkdirAll(filepath.Dir(e.curFile), 0o755)
		f, err := os.OpenFile(e.curFile, os.O_RDWR|os.O_CREATE|os.O_TRUNC, 0o644)
		if err != nil {
			return
		}
		e.curF = f
	}
	e.curF.WriteAt(j, 0)
	e.curF.Truncate(int64(len(j)))
}

func writeJSON(path string, v interface{}) {
	j, err := json.MarshalIndent(v, "", " ")
	if err != nil {
		j = []byte(fmt.Sprintf("%q", fmt.Sprintf("%+v", v)))
	}
	os.MkdirAll(filepath.Dir(path), 0o755)
	tmp := path + ".tmp"
	if err := os.WriteFile(tmp, j, 0o644); err == nil {
		os.Rename(tmp, path)
	}
}

// SafeRun calls run and converts a panic into a failing verdict.
func SafeRun[C any](run func(C) Verdict, c C) (v Verdict) {
	defer func() {
		if r := recover(); r != nil {
			v.Bad = true
			v.Msg = fmt.Sprintf("panic: %v\n%s", r, trimStack(debug.Stack()))
		}
	}()
	return run(c)
}

// Catch runs f and returns the recovered panic (nil when none) as a string.
func Catch(f func()) (p string) {
	defer func() {
		if r := recover(); r != nil {
			p = fmt.Sprintf("%v | %s", r, trimStack(debug.Stack()))
			if p == "" {
				p = "panic"
			}
		}
	}()
	f()
	return ""
}

func trimStack(b []byte) string {
	lines := strings.Split(string(b), "\n")
	var out []string
	for _, l := range lines {
		if strings.Contains(l, "ctessum/geom") || strings.Contains(l, "/repo/") {
			out = append(out, strings.TrimSpace(l))
			if len(out) >= 8 {
				break
			}
		}
	}
	return strings.Join(out, " <- ")
}

type knownLine struct {
	key, replay, desc string
}

func loadKnown(id string) []knownLine {
	b, err := os.ReadFile(filepath.Join(VerifDir(), "KNOWN_FINDINGS.txt"))
	if err != nil {
		return nil
	}
	var out []knownLine
	for _, l := range strings.Split(string(b), "\n") {
		l = strings.TrimSpace(l)
		if !strings.HasPrefix(l, "known:") {
			continue
		}
		f := strings.Fields(l[len("known:"):])
		var kl knownLine
		var prop string
		var rest []string
		for _, w := range f {
			switch {
			case strings.HasPrefix(w, "property=") && prop == "":
				prop = w[len("property="):]
			case strings.HasPrefix(w, "key=") && kl.key == "":
				kl.key = w[len("key="):]
			case strings.HasPrefix(w, "replay=") && kl.replay == "":
				kl.replay = w[len("replay="):]
			default:
				rest = append(rest, w)
			}
		}
		kl.desc = strings.Join(rest, " ")
		if prop == id {
			out = append(out, kl)
		}
	}
	return out
}

// Main is the body of a property package's single test.
func Main[C any](t *testing.T, s Spec[C]) {
	start := time.Now()
	tier := Tier()
	seed := uint64(envInt("VERIF_SEED", 1))
	if seed == 0 {
		seed = 1
	}
	shard := envInt("VERIF_SHARD", 0)
	dir := VerifDir()
	ev := &Ev[C]{spec: &s, hashes: map[uint64]struct{}{}, Classes: map[string]int64{}, Notes: map[string]interface{}{},
		replayDir: filepath.Join(EvidenceDir(), "replay"), shard: shard, seed: seed}
	partPath := os.Getenv("VERIF_PART")
	if partPath == "" {
		partPath = filepath.Join(EvidenceDir(), "parts", fmt.Sprintf("%s-%d.json", s.ID, shard))
	}
	completed := false
	writePart := func() {
		if s.Finish != nil {
			s.Finish(ev)
		}
		ev.mu.Lock()
		defer ev.mu.Unlock()
		n := s.NSamples
		if n == 0 {
			n = 6
		}
		ev.trim(n - n/2)
		p := part{ID: s.ID, Tier: tier, Seed: seed, Shard: shard, Evaluations: ev.Evaluations, Classes: ev.Classes,
			Excluded: ev.Excluded, Violations: ev.Violations, KnownLines: ev.KnownLines, Notes: ev.Notes, Rule: s.Rule,
			Assumptions: s.Assumptions, Exhaustive: ev.Exhaustive, WallS: time.Since(start).Seconds(), Completed: completed}
		for h := range ev.hashes {
			p.Hashes = append(p.Hashes, strconv.FormatUint(h, 36))
		}
		sort.Strings(p.Hashes)
		p.Samples = append(p.Samples, ev.first...)
		for _, se := range ev.small {
			p.Samples = append(p.Samples, se.j)
		}
		writeJSON(partPath, p)
	}
	defer writePart()

	known := loadKnown(s.ID)
	var activeKnown []func(C) bool
	for _, kl := range known {
		if pred, ok := s.Known[kl.key]; ok {
			activeKnown = append(activeKnown, pred)
		} else {
			t.Errorf("KNOWN_FINDINGS.txt names key=%s for %s but the check has no such predicate", kl.key, s.ID)
		}
	}
	isKnown := func(c C) bool {
		for _, p := range activeKnown {
			if p(c) {
				return true
			}
		}
		return false
	}

	// watchdog
	if s.Guard {
		ev.curFile = filepath.Join(ev.replayDir, fmt.Sprintf("%s-current-%d.json", s.ID, shard))
		to := s.GuardTimeout
		if to == 0 {
			to = 20 * time.Second
		}
		go func() {
			for {
				time.Sleep(500 * time.Millisecond)
				st := ev.callStart.Load()
				if st != 0 && time.Since(time.Unix(0, st)) > to {
					fmt.Printf("VERIF-HANG property=%s file=%s after=%s\n", s.ID, ev.curFile, to)
					os.Stdout.Sync()
					os.Exit(86)
				}
			}
		}()
	}
	call := func(c C) Verdict {
		if s.Guard {
			ev.writeCurrent(c)
			ev.callStart.Store(time.Now().UnixNano())
			defer ev.callStart.Store(0)
		}
		return SafeRun(s.Run, c)
	}

	loadCase := func(path string) (C, error) {
		var c C
		b, err := os.ReadFile(path)
		if err != nil {
			return c, err
		}
		err = json.Unmarshal(b, &c)
		return c, err
	}

	// explicit replay of one file
	if rp := os.Getenv("VERIF_REPLAY"); rp != "" {
		c, err := loadCase(rp)
		if err != nil {
			t.Fatalf("cannot load replay file %s: %v", rp, err)
		}
		v := call(c)
		ev.Record(c, v)
		completed = true
		if v.Bad {
			ev.mu.Lock()
			ev.Violations = append(ev.Violations, Violation{rp, v.Msg})
			ev.mu.Unlock()
			fmt.Printf("REPLAY-FAIL property=%s replay=%s: %s\n", s.ID, rp, v.Msg)
			t.Fail()
		} else {
			fmt.Printf("REPLAY-OK property=%s replay=%s\n", s.ID, rp)
		}
		return
	}

	if shard == 0 {
		// known findings: replay the stored input, report if it still fails
		for _, kl := range known {
			path := kl.replay
			if !filepath.IsAbs(path) {
				path = filepath.Join(dir, path)
			}
			c, err := loadCase(path)
			if err != nil {
				t.Errorf("known finding replay %s: %v", path, err)
				continue
			}
			v := call(c)
			if v.Bad {
				line := fmt.Sprintf("KNOWN-FINDING: property=%s key=%s %s", s.ID, kl.key, kl.desc)
				fmt.Println(line)
				ev.KnownLines = append(ev.KnownLines, line)
			}
		}
		// corpus replay: every minimal reproduction ever saved
		files, _ := filepath.Glob(filepath.Join(dir, "corpus", strings.ToLower(s.ID), "*.json"))
		sort.Strings(files)
		for _, f := range files {
			c, err := loadCase(f)
			if err != nil {
				t.Errorf("corpus file %s: %v", f, err)
				continue
			}
			if isKnown(c) {
				ev.Excluded++
				continue
			}
			v := call(c)
			ev.Record(c, v)
			ev.Count("corpus_replayed", 1)
			if v.Bad {
				ev.mu.Lock()
				ev.Violations = append(ev.Violations, Violation{f, v.Msg})
				ev.mu.Unlock()
				fmt.Printf("CORPUS-FAIL property=%s replay=%s: %s\n", s.ID, f, firstLine(v.Msg))
				t.Fail()
			}
		}
		if s.Extra != nil {
			s.Extra(ev, tier)
			if len(ev.Violations) > 0 {
				t.Fail()
			}
		}
	}
	if t.Failed() {
		completed = true
		return
	}

	if s.Gen != nil && envInt("VERIF_NORAPID", 0) == 0 {
		replayName := fmt.Sprintf("%s-seed%d-shard%d.json", s.ID, seed, shard)
		rapid.Check(t, func(rt *rapid.T) {
			c := s.Gen(rt)
			if isKnown(c) {
				ev.mu.Lock()
				ev.Excluded++
				ev.mu.Unlock()
				return
			}
			v := call(c)
			ev.Record(c, v)
			if v.Bad {
				p := ev.Violate(c, v.Msg, replayName)
				rt.Fatalf("property %s violated (replay %s): %s", s.ID, p, v.Msg)
			}
		})
	}
	completed = true
}

func firstLine(s string) string {
	if i := strings.IndexByte(s, '\n'); i >= 0 {
		return s[:i]
	}
	return s
}

// Hash64 hashes a string key (for enumerators).
func Hash64(s string) uint64 {
	h := fnv.New64a()
	h.Write([]byte(s))
	return h.Sum64()
}
