package vkit

import (
	"math"
	"sort"
)

// Edge is a boundary segment tagged with the region (set) it belongs to.
type Edge struct {
	A, B P2
	Set  int
}

// EdgesOf lists all ring segments (implicit closing segment included) of a polygonal region.
func EdgesOf(polys [][][]P2, set int) []Edge {
	var out []Edge
	for _, poly := range polys {
		for _, r := range poly {
			n := len(r)
			if n < 2 {
				continue
			}
			for i := 0; i < n; i++ {
				a, b := r[i], r[(i+1)%n]
				if a == b {
					continue
				}
				out = append(out, Edge{a, b, set})
			}
		}
	}
	return out
}

// SegIntersection returns the intersection point of segments ab and cd when they are not (nearly) parallel
// and meet within both (closed) segments.
func SegIntersection(a, b, c, d P2) (x, y float64, ok bool) {
	ax, ay, bx, by := float64(a[0]), float64(a[1]), float64(b[0]), float64(b[1])
	cx, cy, dx, dy := float64(c[0]), float64(c[1]), float64(d[0]), float64(d[1])
	rx, ry := bx-ax, by-ay
	sx, sy := dx-cx, dy-cy
	den := rx*sy - ry*sx
	if math.Abs(den) <= 1e-13*math.Hypot(rx, ry)*math.Hypot(sx, sy) {
		return 0, 0, false
	}
	t := ((cx-ax)*sy - (cy-ay)*sx) / den
	u := ((cx-ax)*ry - (cy-ay)*rx) / den
	if t < 0 || t > 1 || u < 0 || u > 1 {
		return 0, 0, false
	}
	return ax + t*rx, ay + t*ry, true
}

// SlabSweep decomposes the plane into trapezoids bounded by the given edges and horizontal lines through
// every vertex and every pairwise edge intersection. For each trapezoid it calls visit with the even-odd
// parity mask (bit s set = inside region s), the trapezoid's area and its centroid. Exact up to float rounding.
func SlabSweep(edges []Edge, visit func(mask uint, area, cx, cy float64)) {
	var ys []float64
	for _, e := range edges {
		ys = append(ys, float64(e.A[1]), float64(e.B[1]))
	}
	for i := range edges {
		for j := i + 1; j < len(edges); j++ {
			if _, y, ok := SegIntersection(edges[i].A, edges[i].B, edges[j].A, edges[j].B); ok {
				ys = append(ys, y)
			}
		}
	}
	sort.Float64s(ys)
	type span struct {
		x0, x1 float64
		set    int
	}
	var act []span
	for k := 0; k+1 < len(ys); k++ {
		y0, y1 := ys[k], ys[k+1]
		if !(y1 > y0) {
			continue
		}
		act = act[:0]
		for _, e := range edges {
			ay, by := float64(e.A[1]), float64(e.B[1])
			lo, hi := e.A, e.B
			if ay > by {
				lo, hi = hi, lo
			}
			ly, hy := float64(lo[1]), float64(hi[1])
			if ly == hy || ly > y0 || hy < y1 {
				continue
			}
			lx, hx := float64(lo[0]), float64(hi[0])
			xa := lx + (hx-lx)*((y0-ly)/(hy-ly))
			xb := lx + (hx-lx)*((y1-ly)/(hy-ly))
			act = append(act, span{xa, xb, e.Set})
		}
		sort.Slice(act, func(i, j int) bool { return act[i].x0+act[i].x1 < act[j].x0+act[j].x1 })
		var mask uint
		h := y1 - y0
		for i := 0; i+1 < len(act); i++ {
			mask ^= 1 << uint(act[i].set)
			if mask == 0 {
				continue
			}
			w0 := act[i+1].x0 - act[i].x0
			w1 := act[i+1].x1 - act[i].x1
			area := (w0 + w1) / 2 * h
			if area <= 0 {
				continue
			}
			// centroid: average of the four corners is inside the (convex) trapezoid
			cx := (act[i].x0 + act[i].x1 + act[i+1].x0 + act[i+1].x1) / 4
			visit(mask, area, cx, (y0+y1)/2)
		}
	}
}

// MinDistToEdges is the minimum distance from p to the edges.
func MinDistToEdges(p P2, edges []Edge) float64 {
	d := math.Inf(1)
	for _, e := range edges {
		d = math.Min(d, DistPtSeg(p, e.A, e.B))
	}
	return d
}
