package vkit

import (
	"math"
	"math/big"
)

// Independent geometry oracles. Nothing here calls into package geom.

// Cross is the z component of (b-a)x(c-a). Exact for small dyadic coordinates.
func Cross(a, b, c P2) float64 {
	return (float64(b[0])-float64(a[0]))*(float64(c[1])-float64(a[1])) - (float64(b[1])-float64(a[1]))*(float64(c[0])-float64(a[0]))
}

// OrientSign is the sign of (b-a)x(c-a), exact for every input: the floating-point value decides when it is well clear
// of its own rounding error (differences and products each rounded once, nothing near the underflow range), the
// rational computation otherwise. (A cross product of 0.5 * 2^-1074 rounds to zero: thorough tier, seed 7.)
func OrientSign(a, b, c P2) int {
	dx1, dy2 := float64(b[0])-float64(a[0]), float64(c[1])-float64(a[1])
	dy1, dx2 := float64(b[1])-float64(a[1]), float64(c[0])-float64(a[0])
	t1, t2 := dx1*dy2, dy1*dx2
	det, mag := t1-t2, math.Abs(t1)+math.Abs(t2)
	if mag > 1e-280 && mag < 1e300 && math.Abs(det) > 1e-14*mag {
		if det > 0 {
			return 1
		}
		return -1
	}
	// lattice coordinates (collinear points, axis-parallel edges) end up here all the time: when the four differences
	// and the two products carry no rounding error at all (checked with the error terms of TwoSum and of the fused
	// multiply-add) the floating-point value is the exact one. (A difference of floats is zero only for equal operands.)
	if (dx1 == 0 || dy2 == 0) && (dy1 == 0 || dx2 == 0) && !math.IsNaN(det) {
		return 0
	}
	exactDiff := func(x, y, d float64) bool { // d == x - y without rounding error
		yy := x - d
		return (x-(d+yy))+(yy-y) == 0 && !math.IsInf(d, 0)
	}
	if mag < 1e300 && (dx1 == 0 || dy2 == 0 || math.Abs(t1) > 1e-280) && (dy1 == 0 || dx2 == 0 || math.Abs(t2) > 1e-280) &&
		exactDiff(float64(b[0]), float64(a[0]), dx1) && exactDiff(float64(c[1]), float64(a[1]), dy2) &&
		exactDiff(float64(b[1]), float64(a[1]), dy1) && exactDiff(float64(c[0]), float64(a[0]), dx2) &&
		math.FMA(dx1, dy2, -t1) == 0 && math.FMA(dy1, dx2, -t2) == 0 {
		switch {
		case t1 > t2:
			return 1
		case t1 < t2:
			return -1
		}
		return 0
	}
	return ExactOrient(a, b, c)
}

// OnSeg reports whether p lies on the closed segment ab.
func OnSeg(p, a, b P2) bool {
	if OrientSign(a, b, p) != 0 {
		return false
	}
	return math.Min(float64(a[0]), float64(b[0])) <= float64(p[0]) && float64(p[0]) <= math.Max(float64(a[0]), float64(b[0])) &&
		math.Min(float64(a[1]), float64(b[1])) <= float64(p[1]) && float64(p[1]) <= math.Max(float64(a[1]), float64(b[1]))
}

// rayCrosses: does the ray from p towards +x cross segment ab under the half-open rule
// (lower endpoint included, upper excluded; horizontal segments never count)?
func rayCrosses(p, a, b P2) bool {
	if a[1] > b[1] {
		a, b = b, a
	}
	if !(a[1] <= p[1] && p[1] < b[1]) {
		return false
	}
	// p strictly left of the upward-directed line a->b  <=>  cross(a,b,p) > 0
	return OrientSign(a, b, p) > 0
}

const (
	Outside = 0
	Inside  = 1
	OnEdge  = 2
)

// PIP classifies p against a polygonal region given as polygons of rings: OnEdge if p is on a
// segment (incl. the implicit closing one) of a ring with >=3 vertices; else even-odd over all rings
// of all polygons.
func PIP(p P2, polys [][][]P2) int {
	cross := 0
	for _, poly := range polys {
		for _, r := range poly {
			n := len(r)
			if n < 3 {
				continue
			}
			for i := 0; i < n; i++ {
				a, b := r[i], r[(i+1)%n]
				if OnSeg(p, a, b) {
					return OnEdge
				}
				if rayCrosses(p, a, b) {
					cross++
				}
			}
		}
	}
	if cross%2 == 1 {
		return Inside
	}
	return Outside
}

// DistPtSeg is the Euclidean distance from p to the closed segment ab.
func DistPtSeg(p, a, b P2) float64 {
	ax, ay, bx, by, px, py := float64(a[0]), float64(a[1]), float64(b[0]), float64(b[1]), float64(p[0]), float64(p[1])
	vx, vy := bx-ax, by-ay
	wx, wy := px-ax, py-ay
	vv := vx*vx + vy*vy
	if vv == 0 {
		return math.Hypot(wx, wy)
	}
	t := (wx*vx + wy*vy) / vv
	if t <= 0 {
		return math.Hypot(wx, wy)
	}
	if t >= 1 {
		return math.Hypot(px-bx, py-by)
	}
	// distance to the line through a,b: |cross| / |v|
	return math.Abs(vx*wy-vy*wx) / math.Sqrt(vv)
}

// MinDistToRings is the minimum distance from p to any segment (closing ones included) of the rings.
func MinDistToRings(p P2, polys [][][]P2) float64 {
	d := math.Inf(1)
	for _, poly := range polys {
		for _, r := range poly {
			n := len(r)
			if n == 1 {
				d = math.Min(d, DistPtSeg(p, r[0], r[0]))
			}
			for i := 0; i < n && n >= 2; i++ {
				d = math.Min(d, DistPtSeg(p, r[i], r[(i+1)%n]))
			}
		}
	}
	return d
}

// SegIntersectProper reports whether open segments ab and cd cross at a single interior point,
// with orientation margins eps (relative to the cross products' scale) so rounding cannot flip it.
func SegIntersectProper(a, b, c, d P2, eps float64) bool {
	d1, d2 := Cross(a, b, c), Cross(a, b, d)
	d3, d4 := Cross(c, d, a), Cross(c, d, b)
	return ((d1 > eps && d2 < -eps) || (d1 < -eps && d2 > eps)) && ((d3 > eps && d4 < -eps) || (d3 < -eps && d4 > eps))
}

// SegSegDist is the distance between closed segments ab and cd.
func SegSegDist(a, b, c, d P2) float64 {
	if SegIntersectProper(a, b, c, d, 0) {
		return 0
	}
	return math.Min(math.Min(DistPtSeg(a, c, d), DistPtSeg(b, c, d)), math.Min(DistPtSeg(c, a, b), DistPtSeg(d, a, b)))
}

// RingAreaSigned is the shoelace area (positive for counter-clockwise).
func RingAreaSigned(r []P2) float64 {
	n := len(r)
	s := 0.0
	for i := 0; i < n; i++ {
		a, b := r[i], r[(i+1)%n]
		s += float64(a[0])*float64(b[1]) - float64(b[0])*float64(a[1])
	}
	return s / 2
}

// Off reports that a difference is NOT within the tolerance. Unlike `math.Abs(d) > tol` it is true for a NaN
// difference, so a NaN result can never pass a numeric comparison silently.
func Off(d, tol float64) bool { return !(math.Abs(d) <= tol) }

// ---- exact predicates on float64 coordinates (rational arithmetic) ----

// ExactOrient is the sign of the orientation determinant of (a, b, c): +1 left turn, -1 right turn, 0 collinear.
func ExactOrient(a, b, c P2) int {
	r := func(f F) *big.Rat { return new(big.Rat).SetFloat64(float64(f)) }
	abx, aby := new(big.Rat).Sub(r(b[0]), r(a[0])), new(big.Rat).Sub(r(b[1]), r(a[1]))
	acx, acy := new(big.Rat).Sub(r(c[0]), r(a[0])), new(big.Rat).Sub(r(c[1]), r(a[1]))
	l, rr := new(big.Rat).Mul(abx, acy), new(big.Rat).Mul(aby, acx)
	return l.Cmp(rr)
}

func exactBetween(a, b, p P2) bool { // p collinear with a, b: inside the closed box of a, b
	return math.Min(float64(a[0]), float64(b[0])) <= float64(p[0]) && float64(p[0]) <= math.Max(float64(a[0]), float64(b[0])) &&
		math.Min(float64(a[1]), float64(b[1])) <= float64(p[1]) && float64(p[1]) <= math.Max(float64(a[1]), float64(b[1]))
}

// ExactSegsMeet reports whether the closed segments ab and cd share a point, and whether they cross properly (each
// one's end points strictly on either side of the other).
func ExactSegsMeet(a, b, c, d P2) (meet, proper bool) {
	o1, o2, o3, o4 := ExactOrient(a, b, c), ExactOrient(a, b, d), ExactOrient(c, d, a), ExactOrient(c, d, b)
	if o1*o2 < 0 && o3*o4 < 0 {
		return true, true
	}
	if o1 == 0 && exactBetween(a, b, c) || o2 == 0 && exactBetween(a, b, d) || o3 == 0 && exactBetween(c, d, a) || o4 == 0 && exactBetween(c, d, b) {
		return true, false
	}
	return false, false
}

// ExactSimple: no two non-neighbouring segments of the open line share a point, neighbours share their vertex only, and
// no segment has length zero - decided exactly.
func ExactSimple(l []P2) bool {
	n := len(l)
	for i := 0; i+1 < n; i++ {
		if l[i] == l[i+1] {
			return false
		}
		for j := i + 1; j+1 < n; j++ {
			if j == i+1 {
				// neighbours: the next segment must not fold back onto this one
				if ExactOrient(l[i], l[i+1], l[j+1]) == 0 && exactBetween(l[i], l[i+1], l[j+1]) {
					return false
				}
				if ExactOrient(l[j], l[j+1], l[i]) == 0 && exactBetween(l[j], l[j+1], l[i]) {
					return false
				}
				continue
			}
			if m, _ := ExactSegsMeet(l[i], l[i+1], l[j], l[j+1]); m {
				return false
			}
		}
	}
	return true
}
