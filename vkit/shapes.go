package vkit

import (
	"math"

	"pgregory.net/rapid"
)

// StarRing draws a simple ring that is star-shaped about (cx,cy): n vertices at strictly increasing angles
// (every angular gap < pi) and radii in [rminFrac*R, R]. Counter-clockwise, not closed.
func StarRing(t *rapid.T, cx, cy, R float64, nmin, nmax int, rminFrac float64) []P2 {
	n := rapid.IntRange(nmin, nmax).Draw(t, "nv")
	w := make([]float64, n)
	sum := 0.0
	for i := range w {
		w[i] = rapid.Float64Range(1, 1.9).Draw(t, "w")
		sum += w[i]
	}
	a0 := rapid.Float64Range(0, 2*math.Pi).Draw(t, "a0")
	ring := make([]P2, n)
	acc := 0.0
	for i := range ring {
		ang := a0 + 2*math.Pi*acc/sum
		acc += w[i]
		r := R * rapid.Float64Range(rminFrac, 1).Draw(t, "r")
		ring[i] = MkP(cx+r*math.Cos(ang), cy+r*math.Sin(ang))
	}
	return ring
}

// Inradius is the distance from (cx,cy) to the nearest edge of the ring.
func Inradius(ring []P2, cx, cy float64) float64 {
	d := math.Inf(1)
	c := MkP(cx, cy)
	for i := range ring {
		d = math.Min(d, DistPtSeg(c, ring[i], ring[(i+1)%len(ring)]))
	}
	return d
}

// StarPolygon draws a valid polygon: star-shaped shell plus 0..maxHoles star-shaped holes that lie in disjoint
// sectors of the shell's inscribed disc (hence strictly inside the shell and mutually disjoint).
// It returns the rings (shell first, all counter-clockwise, unclosed) and the hole centres/radii.
func StarPolygon(t *rapid.T, cx, cy, R float64, maxHoles int) (rings [][]P2, holes [][3]float64) {
	nmin, nmax := 3, 12
	if rapid.IntRange(0, 39).Draw(t, "bigring") == 7 {
		nmin, nmax = 100, 400 // shells with hundreds of vertices (size-dependent code paths, long sweep-line status)
	}
	shell := StarRing(t, cx, cy, R, nmin, nmax, 0.35)
	rings = append(rings, shell)
	if maxHoles <= 0 {
		return
	}
	k := rapid.IntRange(0, maxHoles).Draw(t, "nholes")
	if k == 0 {
		return
	}
	rin := Inradius(shell, cx, cy)
	base := rapid.Float64Range(0, 2*math.Pi).Draw(t, "holebase")
	for i := 0; i < k; i++ {
		var hx, hy, hr float64
		if k == 1 {
			d := rin * rapid.Float64Range(0, 0.3).Draw(t, "hd")
			hx, hy = cx+d*math.Cos(base), cy+d*math.Sin(base)
			hr = rin * rapid.Float64Range(0.1, 0.5).Draw(t, "hr")
		} else {
			ang := base + 2*math.Pi*(float64(i)+0.5)/float64(k)
			d := 0.5 * rin
			hx, hy = cx+d*math.Cos(ang), cy+d*math.Sin(ang)
			lim := math.Min(0.35*rin, 0.8*d*math.Sin(math.Pi/float64(k)))
			hr = lim * rapid.Float64Range(0.3, 1).Draw(t, "hr")
		}
		rings = append(rings, StarRing(t, hx, hy, hr, 3, 7, 0.5))
		holes = append(holes, [3]float64{hx, hy, hr})
	}
	return
}

// CombPolygon draws a valid polygon that is generally NOT star-shaped: a band between a lower and an upper chain over
// common knots x_0 < ... < x_n (upper > lower at every knot, hence everywhere between), i.e. a snake or comb with deep
// concavities and many edges on one sweep line; optionally rotated (otherwise knots are vertically aligned), then
// scaled so that every vertex is within R of (cx,cy). (cx,cy) is the centre of the largest disc inscribed in a cell
// (the rectangle between two knots from the higher lower-end to the lower upper-end, which lies in the band); holes are
// star-shaped rings inside the discs of other cells, so they are inside the shell and mutually disjoint.
// Returns rings (shell first, counter-clockwise, unclosed), hole discs and the inscribed radius at (cx,cy).
func CombPolygon(t *rapid.T, cx, cy, R float64, maxHoles int) (rings [][]P2, holes [][3]float64, rin float64) {
	n := rapid.IntRange(2, 8).Draw(t, "ncells")
	xs := make([]float64, n+1)
	acc := 0.0
	for i := range xs {
		xs[i] = acc
		acc += rapid.Float64Range(1, 1.9).Draw(t, "dx")
	}
	mid := make([]float64, n+1)
	gap := make([]float64, n+1)
	for i := range mid {
		gap[i] = rapid.Float64Range(0.15, 1.2).Draw(t, "gap")
		if i == 1 { // cell 0 is guaranteed to contain a rectangle: |mid1-mid0| <= half the smaller gap
			g := math.Min(gap[0], gap[1])
			mid[1] = mid[0] + g*rapid.Float64Range(-0.5, 0.5).Draw(t, "mid1")
			continue
		}
		mid[i] = rapid.Float64Range(-2.5, 2.5).Draw(t, "mid")
	}
	type disc struct{ x, y, r float64 }
	var cells []disc
	for i := 0; i < n; i++ {
		lo := math.Max(mid[i]-gap[i], mid[i+1]-gap[i+1])
		hi := math.Min(mid[i]+gap[i], mid[i+1]+gap[i+1])
		if hi-lo > 0.05 {
			cells = append(cells, disc{(xs[i] + xs[i+1]) / 2, (lo + hi) / 2, 0.9 * math.Min((hi-lo)/2, (xs[i+1]-xs[i])/2)})
		}
	}
	main := 0
	for i, c := range cells {
		if c.r > cells[main].r {
			main = i
		}
	}
	var shell []P2
	for i := 0; i <= n; i++ {
		shell = append(shell, MkP(xs[i], mid[i]-gap[i]))
	}
	for i := n; i >= 0; i-- {
		shell = append(shell, MkP(xs[i], mid[i]+gap[i]))
	}
	// similarity: rotation about the main cell centre, then scale so the farthest vertex is at f*R
	th := 0.0
	if rapid.IntRange(0, 2).Draw(t, "rotated") > 0 {
		th = rapid.Float64Range(0, 2*math.Pi).Draw(t, "theta")
	}
	c0 := cells[main]
	rmax := 0.0
	for _, p := range shell {
		rmax = math.Max(rmax, math.Hypot(float64(p[0])-c0.x, float64(p[1])-c0.y))
	}
	sc := R * rapid.Float64Range(0.7, 1).Draw(t, "fill") / rmax
	co, si := math.Cos(th), math.Sin(th)
	tr := func(x, y float64) (float64, float64) {
		dx, dy := x-c0.x, y-c0.y
		return cx + sc*(co*dx-si*dy), cy + sc*(si*dx+co*dy)
	}
	for i, p := range shell {
		x, y := tr(float64(p[0]), float64(p[1]))
		shell[i] = MkP(x, y)
	}
	rings = append(rings, shell)
	rin = c0.r * sc
	k := 0
	if maxHoles > 0 {
		k = rapid.IntRange(0, maxHoles).Draw(t, "nholes")
	}
	for i, c := range cells {
		if k == 0 {
			break
		}
		if i == main {
			continue
		}
		hx, hy := tr(c.x, c.y)
		hr := c.r * sc * rapid.Float64Range(0.3, 0.95).Draw(t, "hr")
		rings = append(rings, StarRing(t, hx, hy, hr, 3, 7, 0.5))
		holes = append(holes, [3]float64{hx, hy, hr})
		k--
	}
	return
}

// Respell draws an equivalent spelling of a ring: optional reversal, rotation of the start vertex,
// and optional repetition of the first vertex at the end.
func Respell(t *rapid.T, ring []P2) []P2 {
	n := len(ring)
	out := make([]P2, 0, n+1)
	rot := rapid.IntRange(0, n-1).Draw(t, "rot")
	rev := rapid.Bool().Draw(t, "rev")
	for i := 0; i < n; i++ {
		j := (rot + i) % n
		if rev {
			j = (rot - i + 2*n) % n
		}
		out = append(out, ring[j])
	}
	if rapid.Bool().Draw(t, "closed") {
		out = append(out, out[0])
	}
	return out
}

// Snap rounds every coordinate to a multiple of q.
func Snap(rings [][]P2, q float64) {
	for _, r := range rings {
		for i := range r {
			r[i] = MkP(math.Round(float64(r[i][0])/q)*q, math.Round(float64(r[i][1])/q)*q)
		}
	}
}

// Placed is a generated polygonal operand with its construction data.
type Placed struct {
	G      GJ
	Cx, Cy float64 // centre of first member
	R      float64
	Rin    float64      // inradius of first member's shell
	Holes  [][3]float64 // holes of first member
}

// GenPolygonal draws a valid operand of the given kind (Polygon | MultiPolygon | Bounds) centred at (cx,cy) with circumradius R.
func GenPolygonal(t *rapid.T, kind string, cx, cy, R float64, snap bool) Placed {
	p := Placed{Cx: cx, Cy: cy, R: R}
	switch kind {
	case "Bounds":
		hw, hh := R*rapid.Float64Range(0.2, 1).Draw(t, "hw"), R*rapid.Float64Range(0.2, 1).Draw(t, "hh")
		p.G = GJ{T: "Bounds", Pts: []P2{MkP(cx-hw, cy-hh), MkP(cx+hw, cy+hh)}}
		p.Rin = math.Min(hw, hh)
		if snap {
			Snap([][]P2{p.G.Pts}, 1.0/1024)
		}
	case "Polygon", "MultiPolygon":
		nm := 1
		if kind == "MultiPolygon" {
			nm = rapid.IntRange(1, 3).Draw(t, "nmembers")
		}
		var polys [][][]P2
		for m := 0; m < nm; m++ {
			mcx := cx + float64(m)*2.5*R
			var rings [][]P2
			var holes [][3]float64
			var rin float64
			if rapid.IntRange(0, 2).Draw(t, "family") == 0 {
				rings, holes, rin = CombPolygon(t, mcx, cy, R, 3)
			} else {
				rings, holes = StarPolygon(t, mcx, cy, R, 3)
				rin = Inradius(rings[0], mcx, cy)
			}
			if m == 0 {
				p.Rin = rin
				p.Holes = holes
			}
			if snap {
				Snap(rings, 1.0/1024)
			}
			for i := range rings {
				rings[i] = Respell(t, rings[i])
			}
			polys = append(polys, rings)
		}
		if kind == "Polygon" {
			p.G = GJ{T: "Polygon", Rings: polys[0]}
		} else {
			p.G = GJ{T: "MultiPolygon", Polys: polys}
		}
	}
	return p
}

// PolysOf lists the polygons (rings) of a Polygon / MultiPolygon / Bounds GJ.
func PolysOf(g GJ) [][][]P2 {
	switch g.T {
	case "Polygon":
		return [][][]P2{g.Rings}
	case "MultiPolygon":
		return g.Polys
	case "Bounds":
		mn, mx := g.Pts[0], g.Pts[1]
		return [][][]P2{{{mn, {mx[0], mn[1]}, mx, {mn[0], mx[1]}}}}
	}
	return nil
}

// GrowLine draws a line that is simple by construction: each new segment is redrawn (not the case) while it comes
// too close to the existing line.
func GrowLine(t *rapid.T, n int, style string) []P2 {
	x, y := rapid.Float64Range(-10, 10).Draw(t, "x0"), rapid.Float64Range(-10, 10).Draw(t, "y0")
	line := []P2{MkP(x, y)}
	heading := rapid.Float64Range(0, 2*math.Pi).Draw(t, "h0")
	rad := 0.5
	for len(line) < n {
		ok := false
		for try := 0; try < 6 && !ok; try++ {
			var nx, ny float64
			switch style {
			case "walk":
				heading += rapid.Float64Range(-2.6, 2.6).Draw(t, "turn")
				l := rapid.Float64Range(0.2, 3).Draw(t, "len")
				nx, ny = x+l*math.Cos(heading), y+l*math.Sin(heading)
			case "spiral":
				heading += rapid.Float64Range(0.3, 1.2).Draw(t, "dtheta")
				rad *= rapid.Float64Range(1.0, 1.25).Draw(t, "grow")
				nx, ny = float64(line[0][0])+rad*math.Cos(heading), float64(line[0][1])+rad*math.Sin(heading)
			case "inspiral":
				heading += rapid.Float64Range(0.3, 1.2).Draw(t, "dtheta")
				rad = 6 * math.Pow(rapid.Float64Range(0.85, 0.99).Draw(t, "shrink"), float64(len(line)))
				nx, ny = float64(line[0][0])+6-rad*math.Cos(heading), float64(line[0][1])+rad*math.Sin(heading)
			case "zigzag":
				nx = x + rapid.Float64Range(0.1, 1).Draw(t, "dx")
				amp := rapid.Float64Range(0.05, 2).Draw(t, "amp")
				if len(line)%2 == 0 {
					amp = -amp
				}
				ny = float64(line[0][1]) + amp
			default: // hook: a long run followed by a tail that curls back across the chord
				l := rapid.Float64Range(0.2, 3).Draw(t, "len")
				if len(line) > n/2 {
					heading += rapid.Float64Range(0.4, 1.4).Draw(t, "curl")
				} else {
					heading += rapid.Float64Range(-0.4, 0.4).Draw(t, "wiggle")
				}
				nx, ny = x+l*math.Cos(heading), y+l*math.Sin(heading)
			}
			cand := MkP(nx, ny)
			if SegClear(line, cand, 1e-3) {
				line = append(line, cand)
				x, y = nx, ny
				ok = true
			}
		}
		if !ok {
			break
		}
	}
	return line
}

// SegClear: the new segment last->cand stays farther than margin from every earlier segment except its neighbour,
// which it may only touch at the shared vertex.
func SegClear(line []P2, cand P2, margin float64) bool {
	n := len(line)
	last := line[n-1]
	if DistPtSeg(cand, last, last) <= margin {
		return false
	}
	for i := 0; i+1 < n; i++ {
		a, b := line[i], line[i+1]
		if i+1 == n-1 {
			if DistPtSeg(cand, a, b) <= margin || DistPtSeg(a, last, cand) <= margin {
				return false
			}
			continue
		}
		if SegSegDist(a, b, last, cand) <= margin {
			return false
		}
	}
	return true
}
