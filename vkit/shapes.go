package vkit

import (
	"math"

	"pgregory.net/rapid"
)

// StarRing draws a simple ring that is star-shaped about (cx,cy): n vertices at strictly increasing angles
// (every angular gap < pi) and radii in [rminFrac*R, R]. Counter-clockwise, not closed.
func StarRing(t *rapid.T, cx, cy, R float64, nmin, nmax int, rminFrac float64) []P2 {
	n := rapid.IntRange(nmin, nmax).Draw(t, "nv")
	w := make([]float64, n)
	sum := 0.0
	for i := range w {
		w[i] = rapid.Float64Range(1, 1.9).Draw(t, "w")
		sum += w[i]
	}
	a0 := rapid.Float64Range(0, 2*math.Pi).Draw(t, "a0")
	ring := make([]P2, n)
	acc := 0.0
	for i := range ring {
		ang := a0 + 2*math.Pi*acc/sum
		acc += w[i]
		r := R * rapid.Float64Range(rminFrac, 1).Draw(t, "r")
		ring[i] = MkP(cx+r*math.Cos(ang), cy+r*math.Sin(ang))
	}
	return ring
}

// Inradius is the distance from (cx,cy) to the nearest edge of the ring.
func Inradius(ring []P2, cx, cy float64) float64 {
	d := math.Inf(1)
	c := MkP(cx, cy)
	for i := range ring {
		d = math.Min(d, DistPtSeg(c, ring[i], ring[(i+1)%len(ring)]))
	}
	return d
}

// StarPolygon draws a valid polygon: star-shaped shell plus 0..maxHoles star-shaped holes that lie in disjoint
// sectors of the shell's inscribed disc (hence strictly inside the shell and mutually disjoint).
// It returns the rings (shell first, all counter-clockwise, unclosed) and the hole centres/radii.
func StarPolygon(t *rapid.T, cx, cy, R float64, maxHoles int) (rings [][]P2, holes [][3]float64) {
	shell := StarRing(t, cx, cy, R, 3, 12, 0.35)
	rings = append(rings, shell)
	if maxHoles <= 0 {
		return
	}
	k := rapid.IntRange(0, maxHoles).Draw(t, "nholes")
	if k == 0 {
		return
	}
	rin := Inradius(shell, cx, cy)
	base := rapid.Float64Range(0, 2*math.Pi).Draw(t, "holebase")
	for i := 0; i < k; i++ {
		var hx, hy, hr float64
		if k == 1 {
			d := rin * rapid.Float64Range(0, 0.3).Draw(t, "hd")
			hx, hy = cx+d*math.Cos(base), cy+d*math.Sin(base)
			hr = rin * rapid.Float64Range(0.1, 0.5).Draw(t, "hr")
		} else {
			ang := base + 2*math.Pi*(float64(i)+0.5)/float64(k)
			d := 0.5 * rin
			hx, hy = cx+d*math.Cos(ang), cy+d*math.Sin(ang)
			lim := math.Min(0.35*rin, 0.8*d*math.Sin(math.Pi/float64(k)))
			hr = lim * rapid.Float64Range(0.3, 1).Draw(t, "hr")
		}
		rings = append(rings, StarRing(t, hx, hy, hr, 3, 7, 0.5))
		holes = append(holes, [3]float64{hx, hy, hr})
	}
	return
}

// Respell draws an equivalent spelling of a ring: optional reversal, rotation of the start vertex,
// and optional repetition of the first vertex at the end.
func Respell(t *rapid.T, ring []P2) []P2 {
	n := len(ring)
	out := make([]P2, 0, n+1)
	rot := rapid.IntRange(0, n-1).Draw(t, "rot")
	rev := rapid.Bool().Draw(t, "rev")
	for i := 0; i < n; i++ {
		j := (rot + i) % n
		if rev {
			j = (rot - i + 2*n) % n
		}
		out = append(out, ring[j])
	}
	if rapid.Bool().Draw(t, "closed") {
		out = append(out, out[0])
	}
	return out
}

// Snap rounds every coordinate to a multiple of q.
func Snap(rings [][]P2, q float64) {
	for _, r := range rings {
		for i := range r {
			r[i] = MkP(math.Round(float64(r[i][0])/q)*q, math.Round(float64(r[i][1])/q)*q)
		}
	}
}
