// proj4js 2.3.12 (the original that ctessum/geom/proj was ported from, vendored in the repository) as a
// differential oracle. NDJSON on stdin -> NDJSON on stdout, one answer per request, in order.
//   {"id":n,"src":"<def>","dst":"<def>","pts":[[x,y],...]}  -> {"id":n,"pts":[[x,y]|null,...],"errs":[msg|null,...]}
//   {"id":n,"parse":"<def>"}                                 -> {"id":n,"sr":{...numeric/string fields of the Proj...}} | {"id":n,"err":msg}
//   {"id":n,"tables":true}                                   -> {"id":n,"tables":{ellipsoids,datums,primeMeridians,units}}
var path = require('path');
var lib = process.env.PROJ4JS_LIB || '/repo/proj/proj4js-2.3.12/lib';
var proj4 = require(path.join(lib, 'index.js'));
var Proj = proj4.Proj;
var cache = {};
function getProj(def) {
  if (!(def in cache)) {
    try { cache[def] = { p: new Proj(def) }; } catch (e) { cache[def] = { e: String(e && e.message || e) }; }
    var keys = Object.keys(cache);
    if (keys.length > 2000) { cache = {}; }
  }
  var c = cache[def];
  if (c === undefined) { return getProj(def); }
  if (c.e) { throw new Error(c.e); }
  return c.p;
}
function num(v) { return (typeof v === 'number' && isFinite(v)) ? v : (typeof v === 'number' ? String(v) : v); }
function dumpProj(p) {
  var o = {};
  Object.keys(p).forEach(function (k) {
    var v = p[k];
    if (typeof v === 'number' || typeof v === 'string' || typeof v === 'boolean') { o[k] = num(v); }
    else if (Array.isArray(v)) { o[k] = v.map(num); }
  });
  if (p.datum) {
    o.datum_type = p.datum.datum_type;
    o.datum_a = p.datum.a; o.datum_b = p.datum.b; o.datum_es = p.datum.es;
    if (p.datum.datum_params) { o.datum_params_converted = p.datum.datum_params.map(num); }
  }
  return o;
}
function handle(req) {
  if (req.tables) {
    return { id: req.id, tables: {
      ellipsoids: require(path.join(lib, 'constants/Ellipsoid.js')),
      datums: require(path.join(lib, 'constants/Datum.js')),
      primeMeridians: require(path.join(lib, 'constants/PrimeMeridian.js')),
      units: require(path.join(lib, 'constants/units.js')) } };
  }
  if (req.parse !== undefined) {
    try { return { id: req.id, sr: dumpProj(new Proj(req.parse)) }; } catch (e) { return { id: req.id, err: String(e && e.message || e) }; }
  }
  var out = { id: req.id, pts: [], errs: [] };
  var s, d;
  try { s = getProj(req.src); d = getProj(req.dst); } catch (e) { return { id: req.id, err: String(e && e.message || e) }; }
  for (var i = 0; i < req.pts.length; i++) {
    try {
      var r = proj4.transform(s, d, { x: req.pts[i][0], y: req.pts[i][1] });
      if (r && isFinite(r.x) && isFinite(r.y)) { out.pts.push([r.x, r.y]); out.errs.push(null); }
      else { out.pts.push(null); out.errs.push('non-finite result'); }
    } catch (e) { out.pts.push(null); out.errs.push(String(e && e.message || e)); }
  }
  return out;
}
var rl = require('readline').createInterface({ input: process.stdin, terminal: false });
rl.on('line', function (line) {
  if (!line.trim()) { return; }
  var res;
  try { res = handle(JSON.parse(line)); } catch (e) { res = { err: 'oracle: ' + String(e && e.message || e) }; }
  process.stdout.write(JSON.stringify(res) + '\n');
});
